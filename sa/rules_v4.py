"""C02 rules: v4 tables, classifiers, effective values, next-lower derivation, search loop, tail."""

from __future__ import annotations

import ast
import itertools
from fractions import Fraction

from . import terms as T
from .canon import Canon, SpecBuilder, explain_diff
from .consteval import NAN, qof
from .interp import Dead, Ref, mk_and, mk_not, mk_or
from .objmodel import ObjModel, metric_slot
from .rules_score import get_model, score_writer
from .srcmodel import AnalysisError, short
from .terms import ABSENT, App, Const, Fin, Opaque, P

HALF_UP = "decimal.ROUND_HALF_UP"
EQ_ORDER = ["eq1", "eq2", "eq3", "eq4", "eq5", "eq6"]


def spec_eval(expr, env):
    """Evaluate a specification predicate string (spec/v4.json) on an assignment."""
    tree = ast.parse(expr, mode="eval").body

    def ev(n):
        if isinstance(n, ast.BoolOp):
            vals = [ev(v) for v in n.values]
            return all(vals) if isinstance(n.op, ast.And) else any(vals)
        if isinstance(n, ast.UnaryOp) and isinstance(n.op, ast.Not):
            return not ev(n.operand)
        if isinstance(n, ast.Compare) and len(n.ops) == 1 and isinstance(n.ops[0], (ast.Eq, ast.NotEq)):
            r = ev(n.left) == ev(n.comparators[0])
            return r if isinstance(n.ops[0], ast.Eq) else not r
        if isinstance(n, ast.Name):
            return env[n.id]
        if isinstance(n, ast.Constant):
            return n.value
        raise ValueError("unsupported spec expression")

    return ev(tree)


def lookup_ref(ctx):
    return dict((k, Fraction(v)) for k, v in ctx.spec("v4_lookup.json")["lookup"].items())


def parse_maxvec(s):
    out = {}
    for fld in s.split("/"):
        if fld:
            k, _, v = fld.partition(":")
            out[k] = v
    return out


# ---------------------------------------------------------------------------------------------
# table rules (E2)


def check_lookup(ctx, led):
    spec = ctx.vspec(4)
    ref = lookup_ref(ctx)
    t = ctx.ce.table("constants4", "CVSS_LOOKUP_GLOBAL", "C02.lookup")
    where = "cvss/constants4.py"
    for k, node in t.dups:
        led.violation("C02.lookup", "CVSS_LOOKUP_GLOBAL[%s] duplicate" % k, where, "duplicate key %s in the lookup table" % k)
    n = 0
    for k in sorted(set(t) | set(ref)):
        n += 1
        ck = "constants4.CVSS_LOOKUP_GLOBAL[%s]" % k
        if k not in t:
            led.violation("C02.lookup", ck, where, "macrovector %s missing from the lookup table" % k)
        elif k not in ref:
            led.violation("C02.lookup", ck, where, "macrovector %s is not one of the 270 feasible macrovectors" % k)
        else:
            try:
                q = qof(t[k])
            except TypeError:
                led.violation("C02.lookup", ck, where, "non-numeric lookup value %r" % (t[k],))
                continue
            led.check(
                q == ref[k],
                "C02.lookup",
                ck,
                where,
                "lookup score of macrovector %s is %s, the official table says %s" % (k, float(q), float(ref[k])),
                expected=str(ref[k]),
                found=str(q),
            )
    return n


def feasible_macrovectors(spec):
    """Derived from the specification's EQ predicates: joint feasibility of the digits."""
    eff = spec["effective_domain"]
    eqs = spec["eq"]
    digit_sets = {}
    # eq3/eq6 share VC,VI,VA: joint enumeration; others independent
    def levels_of(eq, env):
        out = [l for l, e in sorted(eqs[eq]["levels"].items()) if spec_eval(e, env)]
        return out

    joint = set()
    vars36 = sorted(set(eqs["eq3"]["vars"]) | set(eqs["eq6"]["vars"]))
    for vals in itertools.product(*[eff[v] for v in vars36]):
        env = dict(zip(vars36, vals))
        l3, l6 = levels_of("eq3", env), levels_of("eq6", env)
        assert len(l3) == 1 and len(l6) == 1
        joint.add((l3[0], l6[0]))
    for eq in ("eq1", "eq2", "eq4", "eq5"):
        s = set()
        vs = eqs[eq]["vars"]
        for vals in itertools.product(*[eff[v] for v in vs]):
            l = levels_of(eq, dict(zip(vs, vals)))
            assert len(l) == 1
            s.add(l[0])
        digit_sets[eq] = sorted(s)
    out = set()
    for a in digit_sets["eq1"]:
        for b in digit_sets["eq2"]:
            for (c, f) in joint:
                for d in digit_sets["eq4"]:
                    for e in digit_sets["eq5"]:
                        out.add(a + b + c + d + e + f)
    return out, joint


def check_lookup_shape(ctx, led):
    """Key set = feasible macrovectors derived from the spec predicates; monotone along every digit."""
    spec = ctx.vspec(4)
    t = ctx.ce.table("constants4", "CVSS_LOOKUP_GLOBAL", "C02.lookup")
    feas, joint = feasible_macrovectors(spec)
    where = "cvss/constants4.py"
    led.check(
        set(t.keys()) == feas,
        "C02.lookup.keys",
        "constants4.CVSS_LOOKUP_GLOBAL key set",
        where,
        "lookup keys differ from the feasible macrovector set: missing %s extra %s"
        % (sorted(feas - set(t))[:5], sorted(set(t) - feas)[:5]),
    )
    n = 0
    for k in sorted(t):
        try:
            q = qof(t[k])
        except TypeError:
            continue
        if not (Fraction(1, 10) <= q <= 10 and (q * 10).denominator == 1):
            led.violation(
                "C02.lookup.grid",
                "constants4.CVSS_LOOKUP_GLOBAL[%s]" % k,
                where,
                "lookup value %s is not on the 0.1 grid in [0.1, 10]" % float(q),
            )
        for i in range(6):
            k2 = k[:i] + str(int(k[i]) + 1) + k[i + 1 :]
            if k2 in t:
                n += 1
                try:
                    q2 = qof(t[k2])
                except TypeError:
                    continue
                led.check(
                    q2 <= q,
                    "C02.lookup.monotone",
                    "constants4.CVSS_LOOKUP_GLOBAL[%s]<=[%s]" % (k2, k),
                    where,
                    "the lower macrovector %s scores %s, more than %s (%s): the available distance becomes negative and "
                    "the class is silently skipped" % (k2, float(q2), k, float(q)),
                )
    return n


def check_levels_tables(ctx, led, om):
    """MAX_COMPOSED and MAX_SEVERITY equal the specification by value, and are mutually consistent
    with the level tables and classifiers (cross-derivation of the depths)."""
    spec = ctx.vspec(4)
    mc = ctx.ce.table("constants4", "MAX_COMPOSED", "C02.maxcomposed")
    ms = ctx.ce.table("constants4", "MAX_SEVERITY", "C02.depth")
    where = "cvss/constants4.py"
    n = 0
    # --- max vectors by value (order inside a level matters only if level sums differ)
    want = spec["max_vectors"]
    lv = spec["levels"]

    def level_sum(fields, group):
        return sum(Fraction(lv[k][fields[k]]) for k in group if k in lv)

    def norm_list(lst):
        return [tuple(sorted(parse_maxvec(s).items())) for s in lst]

    for eq, key in (("eq1", "eq1"), ("eq2", "eq2"), ("eq4", "eq4"), ("eq5", "eq5")):
        got = mc.get(key)
        if not isinstance(got, dict):
            led.violation("C02.maxcomposed", "constants4.MAX_COMPOSED[%s]" % key, where, "entry missing")
            continue
        for lvl in sorted(set(want[eq]) | set(got)):
            n += 1
            ck = "constants4.MAX_COMPOSED[%s][%s]" % (key, lvl)
            g = norm_list(got.get(lvl, []))
            w = norm_list(want[eq].get(lvl, []))
            _cmp_maxlist(led, ck, where, g, w, got.get(lvl, []))
    got3 = mc.get("eq3")
    if not isinstance(got3, dict):
        led.violation("C02.maxcomposed", "constants4.MAX_COMPOSED[eq3]", where, "entry missing")
    else:
        flat = {}
        for l3, sub in got3.items():
            if isinstance(sub, dict):
                for l6, lst in sub.items():
                    flat[str(l3) + str(l6)] = lst
        for lvl in sorted(set(want["eq3eq6"]) | set(flat)):
            n += 1
            ck = "constants4.MAX_COMPOSED[eq3][%s][%s]" % (lvl[0], lvl[1])
            _cmp_maxlist(led, ck, where, norm_list(flat.get(lvl, [])), norm_list(want["eq3eq6"].get(lvl, [])), flat.get(lvl, []))
    # every composed piece ends with '/' so that concatenation keeps fields apart
    def walk(x, path):
        if isinstance(x, dict):
            for k, y in x.items():
                walk(y, path + [str(k)])
        elif isinstance(x, list):
            for s in x:
                led.check(
                    isinstance(s, str) and s.endswith("/") and not s.startswith("/"),
                    "C02.maxcomposed.sep",
                    "constants4.MAX_COMPOSED[%s] %r" % ("][".join(path), s),
                    where,
                    "highest-severity vector piece %r must end with '/' (pieces are concatenated)" % (s,),
                )

    walk(mc, [])
    # --- depths by value
    wd = spec["depth"]
    for eq in ("eq1", "eq2", "eq4", "eq5"):
        got = ms.get(eq)
        for lvl in sorted(wd[eq]):
            n += 1
            ck = "constants4.MAX_SEVERITY[%s][%s]" % (eq, lvl)
            g = got.get(int(lvl)) if isinstance(got, dict) else None
            led.check(g == wd[eq][lvl], "C02.depth", ck, where, "depth of %s level %s is %r, specification %r" % (eq, lvl, g, wd[eq][lvl]))
    got = ms.get("eq3eq6")
    for lvl in sorted(wd["eq3eq6"]):
        n += 1
        ck = "constants4.MAX_SEVERITY[eq3eq6][%s][%s]" % (lvl[0], lvl[1])
        g = None
        if isinstance(got, dict) and isinstance(got.get(int(lvl[0])), dict):
            g = got[int(lvl[0])].get(int(lvl[1]))
        led.check(
            g == wd["eq3eq6"][lvl], "C02.depth", ck, where, "depth of eq3eq6 level %s is %r, specification %r" % (lvl, g, wd["eq3eq6"][lvl])
        )
    return n


def _cmp_maxlist(led, ck, where, g, w, raw):
    if g == w:
        led.ok("C02.maxcomposed", ck, where, "%d vector(s)" % len(g))
    elif sorted(g) == sorted(w):
        led.ok("C02.maxcomposed", ck, where, "same vectors in another order (level sums are equal: order-neutral)")
    else:
        led.violation(
            "C02.maxcomposed",
            ck,
            where,
            "highest-severity vectors differ from the specification: found %s" % (raw,),
            expected=[dict(x) for x in w],
            found=[dict(x) for x in g],
        )


def check_cross_derivation(ctx, led, om):
    """From the *code's own* tables and extracted classifiers: for every EQ class, every member
    has a dominating listed max vector, all max vectors of a level have the same level sum, and
    depth = 1 + max distance.  A corrupted row in any table breaks this without any frozen copy."""
    mc = ctx.ce.table("constants4", "MAX_COMPOSED", "C02.cross")
    ms = ctx.ce.table("constants4", "MAX_SEVERITY", "C02.cross")
    spec = ctx.vspec(4)
    lv = spec["levels"]
    eff = spec["effective_domain"]
    eqs = spec["eq"]
    where = "cvss/constants4.py"
    groups = spec["eq_groups"]
    n = 0

    def members(eqnames, vars_):
        out = {}
        for vals in itertools.product(*[eff[v] for v in vars_]):
            env = dict(zip(vars_, vals))
            key = ""
            for e in eqnames:
                ls = [l for l, ex in sorted(eqs[e]["levels"].items()) if spec_eval(ex, env)]
                key += ls[0]
            out.setdefault(key, []).append(env)
        return out

    def check_class(label, group, maxlist, depth, mem):
        nonlocal n
        n += 1
        ck = "constants4 class %s" % label
        if not maxlist:
            led.violation("C02.cross", ck, where, "class %s has members but no highest-severity vector" % label)
            return
        mvs = [parse_maxvec(s) for s in maxlist]
        sums = set(sum(Fraction(lv[k][mv[k]]) for k in group if k in mv and mv[k] in lv[k]) for mv in mvs)
        worst = Fraction(0)
        for env in mem:
            dom = None
            for mv in mvs:
                try:
                    d = [Fraction(lv[k][env[k]]) - Fraction(lv[k][mv[k]]) for k in group]
                except KeyError:
                    d = None
                if d is not None and all(x >= 0 for x in d):
                    dom = sum(d)
                    break
            if dom is None:
                led.violation(
                    "C02.cross",
                    ck,
                    where,
                    "member %s of class %s is dominated by none of its highest-severity vectors %s: the search loop "
                    "ends without a match and uses negative distances" % (env, label, maxlist),
                )
                return
            worst = max(worst, dom)
        led.check(
            len(sums) == 1,
            "C02.cross.sums",
            ck,
            where,
            "highest-severity vectors of class %s have different level sums %s: the result depends on list order" % (label, sorted(sums)),
        )
        want_depth = int(worst * 10) + 1
        led.check(
            depth == want_depth,
            "C02.cross.depth",
            ck,
            where,
            "depth of class %s is %r but the deepest member is %s steps below its highest-severity vector (depth must be %d)"
            % (label, depth, int(worst * 10), want_depth),
        )

    for eq in ("eq1", "eq2", "eq4"):
        mem = members([eq], eqs[eq]["vars"])
        for lvl, envs in sorted(mem.items()):
            ml = mc.get(eq, {}).get(lvl, []) if isinstance(mc.get(eq), dict) else []
            dp = ms.get(eq, {}).get(int(lvl)) if isinstance(ms.get(eq), dict) else None
            check_class("%s=%s" % (eq, lvl), groups[eq], ml, dp, envs)
    vars36 = sorted(set(eqs["eq3"]["vars"]) | set(eqs["eq6"]["vars"]))
    mem = members(["eq3", "eq6"], vars36)
    for lvl, envs in sorted(mem.items()):
        sub = mc.get("eq3", {})
        ml = []
        if isinstance(sub, dict) and isinstance(sub.get(lvl[0]), dict):
            ml = sub[lvl[0]].get(lvl[1], [])
        dsub = ms.get("eq3eq6", {})
        dp = None
        if isinstance(dsub, dict) and isinstance(dsub.get(int(lvl[0])), dict):
            dp = dsub[int(lvl[0])].get(int(lvl[1]))
        check_class("eq3eq6=%s" % lvl, groups["eq3eq6"], ml, dp, envs)
    return n


# ---------------------------------------------------------------------------------------------
# rules on the abstract interpretation of CVSS4.__init__


def check_m(ctx, led, om):
    """m(K) compared with the specification's effective value.  Informational only: what must
    hold is decided at the use sites (classifiers, distances, zero shortcut), which are compared
    exactly over the joint classes of each raw metric group."""
    spec = ctx.vspec(4)
    modified_of = spec["modified_of"]
    where = om.module.where(ctx.repo.method("cvss4", "CVSS4", "m").node)
    n = 0
    fo = om.st.folder()
    for kk in sorted(om.v4.get("called", ())):
        k = modified_of.get(kk, kk)
        if kk not in om.v4.get("eff_fin", {}) or k not in spec["scoring_metrics"]:
            if k not in spec["scoring_metrics"] and kk in om.accepted:
                led.violation("C02.m", "CVSS4.m(%r)" % kk, where, "scoring consults %s, which is not a scoring metric of the specification" % kk)
            continue
        n += 1
        exp = om.spec_leaf(om.st, k, lambda e: e, spec)
        got = om.v4["eff_fin"][kk]
        same = fo.simplify(exp) == fo.simplify(got) if exp is not None else False
        if same:
            led.ok("C02.m", "CVSS4.m(%r)" % kk, where, "equals the specification's effective value of %s" % k)
        else:
            led.info("C02.m", "CVSS4.m(%r)" % kk, where, "differs from the specification's effective value as a function; judged at its use sites")
    for k in spec["scoring_metrics"]:
        base_to_mod = dict((b, m) for m, b in modified_of.items())
        if k not in om.v4.get("called", ()) and base_to_mod.get(k) not in om.v4.get("called", ()):
            led.violation("C02.m", "CVSS4.m(%r)" % k, where, "scoring never consults the effective value of %s" % k)
    return n


def class_env(om, spec, vars_, slots, row):
    """Specification's effective values of vars_ for one row over their group slots."""
    env = {}
    for v in vars_:
        g = om.v4["eff"][v]
        leaf = om.spec_leaf(om.st, v, lambda e: e, spec)
        env[v] = leaf.table.get((row[slots.index(g)],))
    return env


def check_eq(ctx, led, om):
    """Each macrovector digit equals the specification's classifier on the effective values."""
    spec = ctx.vspec(4)
    eqs = spec["eq"]
    digits = om.v4.get("digit_defs")
    mvf = ctx.repo.method("cvss4", "CVSS4", "macroVector")
    where = om.module.where(mvf.node)
    if digits is None:
        raise AnalysisError("C02.eq", "macroVector() is never called while computing the score", mvf.node, om.module)
    led.check(
        len(digits) == 6,
        "C02.eq.shape",
        "CVSS4.macroVector::length",
        where,
        "the macrovector has %d digits, expected 6 (eq1..eq6 in this order)" % len(digits),
    )
    st = om.st
    fo = T.Folder(om.space, {})
    rows_total = 0
    for i, eq in enumerate(EQ_ORDER):
        if i >= len(digits):
            break
        vars_ = eqs[eq]["vars"]
        slots = []
        missing = [v for v in vars_ if v not in om.v4["eff"]]
        if missing:
            led.violation("C02.eq", "CVSS4.macroVector::%s" % eq, where, "%s never consults %s" % (eq, missing))
            continue
        slotmap = dict((v, om.v4["eff"][v]) for v in vars_)
        got0 = digits[i]
        extra_slots = set(got0.slots) if isinstance(got0, Fin) else set()
        slots = tuple(sorted(set(slotmap.values()) | extra_slots))
        sl, rows = fo.rows(slots)
        if rows is None:
            raise AnalysisError("C02.eq", "classifier %s depends on too many inputs: %s" % (eq, slots), mvf.node, om.module)
        from .objmodel import MISMATCH

        tab = {}
        for r in rows:
            env = class_env(om, spec, vars_, sl, r)
            if any(x is MISMATCH or x is None for x in env.values()):
                tab[r] = MISMATCH
                continue
            ls = [l for l, ex in sorted(eqs[eq]["levels"].items()) if spec_eval(ex, env)]
            tab[r] = ls[0]
        rows_total += len(rows)
        exp = fo.simplify(Fin(sl, tab))
        got = digits[i]
        got = fo.simplify(got) if isinstance(got, Fin) else got
        ck = "CVSS4.macroVector::%s" % eq
        if got == exp:
            led.ok("C02.eq", ck, where, "%d-row decision table" % len(rows))
        else:
            diffs = []
            if isinstance(got, Fin) and isinstance(exp, Fin):
                extra = set(got.slots) - set(exp.slots)
                if extra:
                    diffs.append("classifier depends on %s" % sorted(extra))
                elif got.slots == exp.slots or set(got.slots) <= set(exp.slots):
                    g2 = fo.fold(lambda x: x, [got]) if got.slots == exp.slots else None
                    for r in sorted(exp.table, key=lambda r: tuple(T.ckey(x) for x in r)):
                        sub = tuple(r[exp.slots.index(s)] for s in got.slots)
                        gv = got.table.get(sub)
                        if gv != exp.table[r]:
                            diffs.append(
                                "%s: code gives %r, specification %r"
                                % (", ".join("%s=%s" % (s[4:], "/".join(str(y) for y in x) if isinstance(x, tuple) else x) for s, x in zip(exp.slots, r)), gv, exp.table[r])
                            )
            led.violation(
                "C02.eq",
                ck,
                where,
                "%s classifier differs from the specification on %d valuation(s), e.g. %s" % (eq, len(diffs), "; ".join(diffs[:2])),
            )
    led.count("eq_truth_table_rows", rows_total)
    return rows_total


def v4_case_states(om):
    """Case split on the joint (eq3, eq6) digit pair."""
    joint = None
    for cs, allowed in om.space.constraints:
        if cs == ("d3", "d6"):
            joint = sorted(allowed)
    if joint is None:
        joint = [(a, b) for a in om.space.dom["d3"] for b in om.space.dom["d6"]]
    for a, b in joint:
        st = om.st.copy()
        st.dom["d3"] = (a,)
        st.dom["d6"] = (b,)
        yield (a, b), st


def v4_spec_score(sb, om, spec, lookup, case):
    """The v4.0 algorithm (specification section 8.2 + reference calculator) as a term, for one
    (eq3, eq6) case."""
    eff = om.v4["eff"]
    lv = spec["levels"]
    depth = spec["depth"]
    dig = ["d1", "d2", "d3", "d4", "d5", "d6"]

    def lk(digs):
        return lookup.get("".join(digs))

    value = sb.table_leaf(dig, lambda *d: lk(d))

    def lower(idx_list):
        def f(*d):
            d = list(d)
            for i in idx_list:
                d[i] = str(int(d[i]) + 1)
            return lk(d)

        return sb.table_leaf(dig, f)

    e3, e6 = case
    lows = {"eq1": lower([0]), "eq2": lower([1]), "eq4": lower([3]), "eq5": lower([4])}
    rule = spec["next_lower_joint"].get(e3 + e6)
    if rule is None:
        raise AnalysisError("C02.tail", "no next-lower rule for joint class %s%s" % (e3, e6))
    idx = {"eq3": 2, "eq6": 5}
    if len(rule) == 2:
        lows["eq3eq6"] = sb.max(lower([idx[rule[0]]]), lower([idx[rule[1]]]))
    elif len(rule) == 1:
        lows["eq3eq6"] = lower([idx[rule[0]]])
    else:
        lows["eq3eq6"] = sb.table_leaf(dig, lambda *d: None)

    def dist(k):
        return dist_leaf(sb, om, spec, k)

    groups = spec["eq_groups"]
    step = sb.num(spec["step"], "flt")
    zero = sb.num("0", "int")
    n = zero
    total = zero

    def depth_leaf(eqname):
        if eqname == "eq3eq6":
            return sb.leaf(["d3", "d6"], lambda a, b: depth["eq3eq6"].get(a + b), kind="flt")
        i = {"eq1": "d1", "eq2": "d2", "eq4": "d4", "eq5": "d5"}[eqname]
        return sb.leaf([i], lambda a: depth[eqname].get(a), kind="flt")

    for eqname in ("eq1", "eq2", "eq3eq6", "eq4", "eq5"):
        avail = value - lows[eqname]
        g = sb.cmp(">=", avail, zero)
        n = sb.ite(g, n + sb.num("1", "int"), n)
        if eqname == "eq5":
            norm = avail * zero
        else:
            cur = None
            for k in groups[eqname]:
                cur = dist(k) if cur is None else cur + dist(k)
            pct = cur / (depth_leaf(eqname) * step)
            norm = avail * pct
        total = total + sb.ite(g, norm, zero)
    mean = sb.ite(sb.cmp("==", n, zero), zero, total / n)
    v = value - mean
    v = sb.max(sb.num("0.0", "flt"), v)
    v = sb.min(sb.num("10.0", "flt"), v)
    eps = sb.num(spec["epsilon"], "flt")
    rounded = sb.app("float", sb.quant(sb.app("Decimal", v + eps, kind="dec"), spec["step"], HALF_UP), kind="flt")
    # zero shortcut
    fo = sb.st.folder()
    zk = list(spec["zero_if_all_N"])
    zs = sorted(set(eff[k] for k in zk))
    sl, rows = fo.rows(zs)
    if rows is None:
        # more joint classes than the general folding limit (a variant of m() with further classes):
        # this one table is still small enough to enumerate
        import itertools

        n_rows = 1
        for s_ in sl:
            n_rows *= len(fo.domain(s_))
        if n_rows > 400000:
            raise AnalysisError("C02.tail", "the zero shortcut depends on too many effective-value classes to tabulate (%s)" % (zs,))
        rows = list(itertools.product(*[fo.domain(s_) for s_ in sl]))
    tab = {}
    for r in rows:
        env = class_env(om, spec, zk, sl, r)
        tab[r] = all(x == "N" for x in env.values())
    alln = fo.simplify(Fin(sl, tab))
    return sb.ite(alln, sb.num("0.0", "flt"), rounded).t


def dist_leaf(sb, om, spec, k):
    """Severity distance of metric k: level(effective value) - level(value in the max vector)."""
    from .objmodel import MISMATCH

    lv = spec["levels"]
    sm = om.v4["mv_slots"].get(k)
    if sm is None:
        raise AnalysisError("C02.tail", "the search loop never extracts %s from the highest-severity vector" % k)
    if k not in om.v4["eff"]:
        raise AnalysisError("C02.tail", "scoring never consults the effective value of %s" % k)
    leaf = om.spec_leaf(sb.st, k, lambda e: Fraction(lv[k][e]) if e in lv[k] else MISMATCH, spec)
    leaf = sb.st.folder().simplify(leaf)
    if isinstance(leaf, Const) and not isinstance(leaf.v, Fraction):
        a = SE_(sb, P.atom(Opaque("specification-undetermined:" + k), "flt"))
    else:
        a = SE_(sb, P.atom(leaf, "flt") if isinstance(leaf, Fin) else P.const(leaf.v, "flt"))
    b = sb.leaf([sm], lambda v: lv[k][v], kind="flt")
    return a - b


def SE_(sb, t):
    from .canon import SE

    return SE(sb, t)


def check_tail(ctx, led, om, own_tables=False):
    """own_tables: the algorithm's shape instantiated with the code's own lookup and depth tables
    (C14: monotonicity is then decided on those tables; their values are C02's matter)."""
    spec = ctx.vspec(4)
    lookup = lookup_ref(ctx)
    if own_tables:
        tabs = code_tables(ctx)
        if tabs["lookup"] is not None and set(tabs["lookup"]) == set(lookup):
            lookup = tabs["lookup"]
        if tabs["depth"] is not None:
            ok = all(set(tabs["depth"].get(g, {})) == set(spec["depth"][g]) for g in spec["depth"])
            if ok and all(d.denominator == 1 and d > 0 for g in tabs["depth"].values() for d in g.values()):
                spec = dict(spec)
                spec["depth"] = dict((g, dict((l, int(d)) for l, d in tabs["depth"][g].items())) for g in tabs["depth"])
    # the reference lookup is used for the *shape* of the lower-macrovector tables; the values
    # themselves are compared by C02.lookup.  Use the code's own table when they agree.
    n = 0
    bad = []
    for case, st in v4_case_states(om):
        cn = Canon(om.ev, st)
        sb = SpecBuilder(om.ev, st)
        exp = cn(v4_spec_score(sb, om, spec, lookup, case))
        got = cn(om.attr("base_score"))
        n += 1
        if got == exp:
            led.ok("C02.tail", "CVSS4.base_score [eq3eq6=%s%s]" % case, "cvss/cvss4.py", "value graph equals the v4.0 algorithm")
        else:
            bad.append((case, explain_diff(got, exp)))
    if bad:
        fn, stmt, where = score_writer(om, "base_score")
        led.violation(
            "C02.tail",
            "%s::%s" % (fn, stmt),
            where,
            "the value graph flowing into CVSS4.base_score differs from the v4.0 algorithm in %d (eq3,eq6) case(s) %s: %s"
            % (len(bad), ["%s%s" % c for c, _ in bad], "; ".join(bad[0][1][:3])),
            expected="specification algorithm (spec/v4.json + sa/rules_v4.py:v4_spec_score)",
            found="; ".join(bad[0][1][:6]),
        )
    return n


def check_search(ctx, led, om):
    """The highest-severity vector search: candidate list = product of the five per-class lists
    selected by the macrovector digits; first fit on `no distance < 0` over all 14 metrics."""
    spec = ctx.vspec(4)
    lv = spec["levels"]
    hevs = [e for e in om.events("havoc_loop", init_only=True)]
    cbs = ctx.repo.method("cvss4", "CVSS4", "compute_base_score")
    where = om.module.where(cbs.node)
    if not hevs:
        raise AnalysisError("C02.search", "no loop over the highest-severity vectors found in compute_base_score", cbs.node, om.module)
    search = [e for e in hevs if any(s == "break" for s, _ in e.data.get("outcomes", []))]
    builders = [e for e in hevs if e not in search]
    if len(search) != 1:
        raise AnalysisError("C02.search", "expected one search loop with a break, found %d" % len(search), cbs.node, om.module)
    se = search[0]
    st = om.st
    cn = Canon(om.ev, st)
    sb = SpecBuilder(om.ev, st)
    # (a) candidate lists
    want = spec["max_vectors"]
    seen_groups = {}
    n = 0
    for e in builders:
        it = e.data["iterable"]
        if not isinstance(it, Fin):
            raise AnalysisError("C02.search", "candidate list %r is not selected from MAX_COMPOSED by the macrovector digits" % (it,), e.node, e.module)
        slots = it.slots
        name = {("d1",): "eq1", ("d2",): "eq2", ("d3", "d6"): "eq3eq6", ("d4",): "eq4", ("d5",): "eq5"}.get(slots)
        ck = "CVSS4.compute_base_score::%s" % short(e.node.iter)
        if name is None:
            led.violation("C02.search.lists", ck, e.where(), "candidate list is selected by digits %s, not by one EQ class" % (slots,))
            continue
        seen_groups[name] = e
        for row, lst in sorted(it.table.items()):
            n += 1
            lvl = "".join(row)
            w = want[name].get(lvl)
            g = [tuple(sorted(parse_maxvec(s).items())) for s in lst]
            wn = [tuple(sorted(parse_maxvec(s).items())) for s in (w or [])]
            led.check(
                sorted(g) == sorted(wn),
                "C02.search.lists",
                ck + "[%s]" % lvl,
                e.where(),
                "for %s level %s the search uses %s, the specification lists %s" % (name, lvl, lst, w),
            )
    led.check(
        sorted(seen_groups) == ["eq1", "eq2", "eq3eq6", "eq4", "eq5"],
        "C02.search.product",
        "CVSS4.compute_base_score::candidate product",
        where,
        "candidates must be the product of the five per-class lists; found loops over %s" % sorted(seen_groups),
    )
    items = se.data.get("iterable_items") or []
    good = False
    if len(items) == 1 and isinstance(items[0], App) and items[0].op == "cat":
        elems = [a for a in items[0].args if isinstance(a, Opaque)]
        want_elems = sorted(e.data["elem"].sortkey() for e in builders)
        good = len(elems) == len(items[0].args) and sorted(a.sortkey() for a in elems) == want_elems
    led.check(
        good,
        "C02.search.product",
        "CVSS4.compute_base_score::candidate concatenation",
        se.where(),
        "each candidate must be the concatenation of exactly one piece from each of the five lists (found %r)" % (items,),
    )
    # (b) rejection test: continue iff some distance < 0, over all 14 metrics, else break
    eff = om.v4["eff"]
    conds = []
    for k in sorted(lv):
        se_, sm = eff.get(k), om.v4["mv_slots"].get(k)
        if se_ is None or sm is None:
            led.violation("C02.search.reject", "CVSS4.compute_base_score::distance %s" % k, se.where(), "no severity distance is computed for %s" % k)
            continue
        conds.append(sb.cmp("<", dist_leaf(sb, om, spec, k), sb.num("0", "int")))
    exp_cont = cn(mk_or(conds))
    outs = dict()
    for status, c in se.data.get("outcomes", []):
        outs.setdefault(status, []).append(c)
    # reaching the end of the body is the same as `continue`: the next candidate is tried
    again = outs.get("continue", []) + outs.get("normal", [])
    cont = cn(mk_or(again)) if again else Const(False)
    brk = cn(mk_or(outs.get("break", []))) if outs.get("break") else Const(False)
    led.check(
        cont == exp_cont,
        "C02.search.reject",
        "CVSS4.compute_base_score::search loop continue condition",
        se.where(),
        "a candidate must be skipped exactly when one of the 14 severity distances is negative; found %s"
        % "; ".join(explain_diff(cont, exp_cont)[:2]),
    )
    led.check(
        brk == cn(mk_not(exp_cont)) or brk == cn(mk_and([mk_not(c) for c in conds])),
        "C02.search.firstfit",
        "CVSS4.compute_base_score::search loop break condition",
        se.where(),
        "the search must stop at the first candidate with no negative distance",
    )
    return n


def check_extract(ctx, led, om, thorough=False):
    """extract_value_metric(K, s) returns K's value in every composed highest-severity vector."""
    mc = ctx.ce.table("constants4", "MAX_COMPOSED", "C02.extract")
    spec = ctx.vspec(4)
    lists = {}
    lists["eq1"] = [s for lvl in mc["eq1"].values() for s in lvl]
    lists["eq2"] = [s for lvl in mc["eq2"].values() for s in lvl]
    lists["eq3eq6"] = [s for sub in mc["eq3"].values() for lvl in sub.values() for s in lvl]
    lists["eq4"] = [s for lvl in mc["eq4"].values() for s in lvl]
    lists["eq5"] = [s for lvl in mc["eq5"].values() for s in lvl]
    order = ["eq1", "eq2", "eq3eq6", "eq4", "eq5"]
    f = ctx.repo.method("cvss4", "CVSS4", "extract_value_metric")
    where = om.module.where(f.node)
    n = 0
    keys = sorted(spec["levels"])
    for k in keys:
        grp = [g for g in order if k in spec["eq_groups"][g]][0]
        combos = []
        if thorough:
            for combo in itertools.product(*[lists[g] for g in order]):
                combos.append("".join(combo))
        else:
            for s in lists[grp]:
                combos.append("".join(s if g == grp else lists[g][0] for g in order))
            # and one combination using the last pieces of the other groups
            combos.append("".join(lists[g][-1] for g in order))
        bad = None
        for full in combos:
            n += 1
            want = parse_maxvec(full).get(k)
            st = om.st.copy()
            try:
                got = om._real("extract_value_metric", st, [om.self_ref, Const(k), Const(full)], f.node, om.module)
            except Dead:
                got = None
            if not (isinstance(got, Const) and got.v == want):
                bad = (full, got, want)
                break
        led.check(
            bad is None,
            "C02.extract",
            "CVSS4.extract_value_metric(%r)" % k,
            where,
            "extract_value_metric(%r, %r) yields %r, the vector says %r" % ((k,) + (bad or (None, None, None))),
        )
    return n


# ---------------------------------------------------------------------------------------------
# C14: monotonicity across macrovector boundaries, decided on the reduced parameter space


def code_tables(ctx):
    """The code's own lookup, highest-severity vectors and depths (E2), in the specification's
    layout; None for a table that is not in that layout (the C02 rules say what is wrong)."""
    out = {"lookup": None, "max_vectors": None, "depth": None}
    try:
        t = ctx.ce.table("constants4", "CVSS_LOOKUP_GLOBAL", "C14.v4.cross")
        out["lookup"] = dict((str(k), qof(v)) for k, v in t.items())
    except (TypeError, AnalysisError):
        pass
    try:
        mc = ctx.ce.table("constants4", "MAX_COMPOSED", "C14.v4.cross")
        mv = {}
        for eq in ("eq1", "eq2", "eq4", "eq5"):
            mv[eq] = dict((str(l), [s for s in lst]) for l, lst in mc[eq].items())
        mv["eq3eq6"] = {}
        for l3, sub in mc["eq3"].items():
            for l6, lst in sub.items():
                mv["eq3eq6"][str(l3) + str(l6)] = list(lst)
        out["max_vectors"] = mv
    except (TypeError, KeyError, AttributeError, AnalysisError):
        pass
    try:
        ms = ctx.ce.table("constants4", "MAX_SEVERITY", "C14.v4.cross")
        dp = {}
        for eq in ("eq1", "eq2", "eq4", "eq5"):
            dp[eq] = dict((str(l), qof(d)) for l, d in ms[eq].items())
        dp["eq3eq6"] = {}
        for l3, sub in ms["eq3eq6"].items():
            for l6, d in sub.items():
                dp["eq3eq6"][str(l3) + str(l6)] = qof(d)
        out["depth"] = dp
    except (TypeError, KeyError, AttributeError, AnalysisError):
        pass
    return out


def check_cross_monotone(ctx, led, rule="C14.v4.cross"):
    """Single-metric severity steps that change the macrovector (or not): the score never drops.

    Rests on the facts the caller has discharged: the score's value graph is the v4.0 algorithm
    (tail), the digits are the specification's classifiers (eq), the search is a first fit over the
    product of the per-class lists on all distances (search), all highest-severity vectors of a
    class have the same level sum and every member is dominated by one (cross).  Then the score is a
    function F of five per-group signatures (digit(s) of the group, level sum of the group's
    effective values, "all impact metrics None"), and a step of one metric changes one signature.
    F is tabulated on the *code's own* tables (lookup, highest-severity vectors, depths) with exact
    rationals; every (signature step) x (signatures of the other groups) is compared."""
    import math

    spec = ctx.vspec(4)
    tabs = code_tables(ctx)
    where = "cvss/constants4.py"
    if tabs["lookup"] is None or tabs["max_vectors"] is None or tabs["depth"] is None:
        led.undecided(rule, "a scoring table of constants4 is not in the layout of the specification; the v4 step table was not built")
        return 0
    lookup, maxv, depth = tabs["lookup"], tabs["max_vectors"], tabs["depth"]
    lv = dict((k, dict((a, Fraction(b)) for a, b in d.items())) for k, d in spec["levels"].items())
    eqs, dom, groups = spec["eq"], spec["effective_domain"], spec["eq_groups"]
    zero_ks = set(spec["zero_if_all_N"])
    order = spec["severity_order"]
    G = ["eq1", "eq2", "eq3eq6", "eq4", "eq5"]

    def digit(eq, env):
        return [l for l, ex in sorted(eqs[eq]["levels"].items()) if spec_eval(ex, env)][0]

    S = {}
    for g in G:
        ks = groups[g]
        S[g] = {}
        for vals in itertools.product(*[dom[k] for k in ks]):
            env = dict(zip(ks, vals))
            d = digit("eq3", env) + digit("eq6", env) if g == "eq3eq6" else digit(g, env)
            L = sum(lv[k][env[k]] for k in ks if k in lv)
            z = all(env[k] == "N" for k in ks if k in zero_ks)
            S[g][vals] = (d, L, z)
    # level sum of the highest-severity vectors per class (equal within a class: C02.cross.sums)
    Lmax = {}
    for g in G:
        if g == "eq5":
            continue
        for d in set(s[0] for s in S[g].values()):
            lst = maxv.get(g, {}).get(d)
            if not lst:
                led.undecided(rule, "class %s=%s has no highest-severity vector in MAX_COMPOSED; the v4 step table was not built" % (g, d))
                return 0
            sums = set()
            for m in lst:
                mm = parse_maxvec(m)
                try:
                    sums.add(sum(lv[k][mm[k]] for k in groups[g]))
                except KeyError:
                    led.undecided(rule, "highest-severity vector %r of class %s=%s lacks a metric of its group" % (m, g, d))
                    return 0
            if len(sums) != 1:
                led.undecided(rule, "highest-severity vectors of class %s=%s have different level sums: the score depends on which one the search selects" % (g, d))
                return 0
            Lmax[g, d] = sums.pop()
    nl = spec["next_lower_joint"]
    tenth = Fraction(1, 10)

    def F(sig):
        (d1, L1, z1), (d2, L2, z2), (d36, L36, z36), (d4, L4, z4), (d5, L5, z5) = sig
        if z36 and z4:
            return Fraction(0)
        digs = [d1, d2, d36[0], d4, d5, d36[1]]
        value = lookup.get("".join(digs))
        if value is None:
            return None

        def low(i):
            d = list(digs)
            d[i] = str(int(d[i]) + 1)
            return lookup.get("".join(d))

        lows = {"eq1": low(0), "eq2": low(1), "eq4": low(3), "eq5": low(4)}
        c = [low({"eq3": 2, "eq6": 5}[r]) for r in nl.get(d36, [])]
        c = [x for x in c if x is not None]
        lows["eq3eq6"] = max(c) if c else None
        Ls = {"eq1": L1, "eq2": L2, "eq3eq6": L36, "eq4": L4}
        ds = {"eq1": d1, "eq2": d2, "eq3eq6": d36, "eq4": d4}
        n = 0
        tot = Fraction(0)
        for g in G:
            if lows[g] is None or value - lows[g] < 0:
                continue
            n += 1
            if g == "eq5":
                continue
            dep = depth.get(g, {}).get(ds[g])
            if not dep:
                return None
            tot += (value - lows[g]) * (Ls[g] - Lmax[g, ds[g]]) / (dep * tenth)
        mean = tot / n if n else Fraction(0)
        v = min(Fraction(10), max(Fraction(0), value - mean))
        return Fraction(math.floor(v * 10 + Fraction(1, 2)), 10)

    sigsets = dict((g, sorted(set(S[g].values()))) for g in G)
    Ftab = {}
    for sig in itertools.product(*[sigsets[g] for g in G]):
        Ftab[sig] = F(sig)
    if any(x is None for x in Ftab.values()):
        led.undecided(rule, "a feasible macrovector or a depth is missing from the code's tables; the v4 step table was not built")
        return 0

    def vector(assign):
        base = []
        mod = []
        for k in spec["mandatory"]:
            v = assign.get(k)
            if k in ("SI", "SA") and v == "S":
                base.append("%s:H" % k)
                mod.append("M%s:S" % k)
            else:
                base.append("%s:%s" % (k, v))
        opt = ["%s:%s" % (k, assign[k]) for k in ("E", "CR", "IR", "AR")]
        return "CVSS:4.0/" + "/".join(base + opt + mod)

    rep = dict((g, {}) for g in G)
    for g in G:
        for vals, s in S[g].items():
            rep[g].setdefault(s, vals)
    n_cmp = 0
    n_steps = 0
    worst = {}
    for gi, g in enumerate(G):
        ks = groups[g]
        pairs = {}
        for vals, s in S[g].items():
            for i, k in enumerate(ks):
                o = order[k]
                r = o.index(vals[i])
                if r + 1 < len(o):
                    v2 = list(vals)
                    v2[i] = o[r + 1]
                    v2 = tuple(v2)
                    n_steps += 1
                    pairs.setdefault((s, S[g][v2], k), (vals, v2))
        others = [sigsets[h] for h in G if h != g]
        for (s, s2, k), (vals, v2) in sorted(pairs.items(), key=lambda x: repr(x[0])):
            if s == s2:
                continue
            for rest in itertools.product(*others):
                a = list(rest)
                a.insert(gi, s)
                b = list(rest)
                b.insert(gi, s2)
                n_cmp += 1
                fa, fb = Ftab[tuple(a)], Ftab[tuple(b)]
                if fb < fa and (k not in worst or fa - fb > worst[k][0]):
                    assign = {}
                    for h, sg in zip(G, a):
                        assign.update(zip(groups[h], rep[h][sg]))
                    assign.update(zip(ks, vals))
                    assign2 = dict(assign)
                    assign2.update(zip(ks, v2))
                    worst[k] = (fa - fb, vector(assign), fa, vector(assign2), fb, vals[ks.index(k)], v2[ks.index(k)])
    led.count("v4_step_table_signatures", len(Ftab))
    led.count("v4_step_table_comparisons", n_cmp)
    for k in sorted(order):
        ck = "CVSS4 score under a severity step of %s" % k
        if k in worst:
            d, va, fa, vb, fb, x, y = worst[k]
            led.violation(
                rule,
                ck,
                where,
                "raising %s from %s to the more severe %s lowers the v4.0 score: %s scores %s, %s scores %s "
                "(algorithm evaluated exactly on the code's lookup, highest-severity and depth tables)" % (k, x, y, va, float(fa), vb, float(fb)),
                expected="score(%s) >= %s" % (vb, float(fa)),
                found=str(float(fb)),
            )
        else:
            led.ok(rule, ck, where, "no step of %s lowers the score on any of the %d signature tuples" % (k, len(Ftab)))
    return n_cmp
