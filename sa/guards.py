"""E3 — dominating guards on the structured CFG (if / early exit / try / loops)."""

from __future__ import annotations

import ast

from .srcmodel import norm_src


def terminates(body):
    """True when every path through the statement list ends in raise/return/continue/break."""
    for st in body:
        if isinstance(st, (ast.Raise, ast.Return, ast.Continue, ast.Break)):
            return True
        if isinstance(st, ast.If):
            if st.orelse and terminates(st.body) and terminates(st.orelse):
                return True
        if isinstance(st, ast.Try):
            if terminates(st.finalbody):
                return True
            if (terminates(st.body) or (st.orelse and terminates(st.orelse))) and all(
                terminates(h.body) for h in st.handlers
            ):
                return True
    return False


def exits_kind(body):
    """Set of exit kinds with which a terminating body may end."""
    kinds = set()
    for st in body:
        if isinstance(st, ast.Raise):
            kinds.add("raise")
            return kinds
        if isinstance(st, ast.Return):
            kinds.add("return")
            return kinds
        if isinstance(st, ast.Continue):
            kinds.add("continue")
            return kinds
        if isinstance(st, ast.Break):
            kinds.add("break")
            return kinds
        if isinstance(st, ast.If) and st.orelse and terminates(st.body) and terminates(st.orelse):
            return kinds | exits_kind(st.body) | exits_kind(st.orelse)
    return kinds


def split_fact(expr, pol, out):
    """Decompose a condition known to be `pol` into atomic (expr, polarity) facts."""
    if isinstance(expr, ast.UnaryOp) and isinstance(expr.op, ast.Not):
        split_fact(expr.operand, not pol, out)
        return
    if isinstance(expr, ast.BoolOp):
        if isinstance(expr.op, ast.And) and pol:
            for v in expr.values:
                split_fact(v, True, out)
            return
        if isinstance(expr.op, ast.Or) and not pol:
            for v in expr.values:
                split_fact(v, False, out)
            return
    if isinstance(expr, ast.Compare) and len(expr.ops) == 1:
        op = expr.ops[0]
        neg = {ast.NotIn: ast.In, ast.NotEq: ast.Eq, ast.IsNot: ast.Is}
        for k, v in neg.items():
            if isinstance(op, k):
                e2 = ast.Compare(left=expr.left, ops=[v()], comparators=expr.comparators)
                ast.copy_location(e2, expr)
                out.append((e2, not pol))
                return
    out.append((expr, pol))


class Fact(object):
    def __init__(self, expr, pol, origin):
        self.expr = expr
        self.pol = pol
        self.origin = origin  # the If / statement that established it

    def __repr__(self):
        return "%s%s" % ("" if self.pol else "not ", norm_src(self.expr))


def dominating_facts(module, stmt, stop=None):
    """Conditions known to hold when `stmt` starts executing, looking outwards until `stop`
    (a function node by default).  Sound for the structured subset: enclosing if-arms and
    preceding siblings of the form `if c: <terminating body>` (then not c) or
    `if c: ... else: <terminating>` (then c)."""
    facts = []
    node = stmt
    while True:
        parent = module.parent(node)
        if parent is None:
            break
        # which body list of the parent holds node?
        for field in ("body", "orelse", "finalbody"):
            lst = getattr(parent, field, None)
            if isinstance(lst, list) and node in lst:
                idx = lst.index(node)
                for prev in lst[:idx]:
                    if isinstance(prev, ast.If):
                        if terminates(prev.body) and not (prev.orelse and terminates(prev.orelse)):
                            tmp = []
                            split_fact(prev.test, False, tmp)
                            facts.extend(Fact(e, p, prev) for e, p in tmp)
                        elif prev.orelse and terminates(prev.orelse) and not terminates(prev.body):
                            tmp = []
                            split_fact(prev.test, True, tmp)
                            facts.extend(Fact(e, p, prev) for e, p in tmp)
                    elif isinstance(prev, ast.Assert):
                        tmp = []
                        split_fact(prev.test, True, tmp)
                        facts.extend(Fact(e, p, prev) for e, p in tmp)
                if isinstance(parent, ast.If):
                    tmp = []
                    split_fact(parent.test, field == "body", tmp)
                    facts.extend(Fact(e, p, parent) for e, p in tmp)
                break
        else:
            if isinstance(parent, ast.ExceptHandler):
                pass
        if parent is stop or isinstance(parent, (ast.FunctionDef, ast.AsyncFunctionDef, ast.Lambda)):
            break
        node = parent
    return facts


def enclosing_try_handlers(module, stmt, stop=None):
    """[(Try node, handler)] for every try whose *body* contains stmt (innermost first)."""
    out = []
    node = stmt
    while True:
        parent = module.parent(node)
        if parent is None or parent is stop:
            break
        if isinstance(parent, ast.Try) and node in parent.body:
            out.append(parent)
        if isinstance(parent, (ast.FunctionDef, ast.AsyncFunctionDef, ast.Lambda)):
            break
        node = parent
    return out


def enclosing_loops(module, stmt):
    out = []
    for a in module.ancestors(stmt):
        if isinstance(a, (ast.For, ast.While)):
            out.append(a)
        if isinstance(a, (ast.FunctionDef, ast.AsyncFunctionDef, ast.Lambda)):
            break
    return out


def handler_names(h, module=None):
    """Exception names caught by an except handler (["*"] = bare except).  With the module given,
    a name bound once at module level to a tuple of exception names (or to another name) is
    expanded."""
    if h.type is None:
        return ["*"]

    def expand(e, depth=0):
        if isinstance(e, ast.Tuple):
            out = []
            for x in e.elts:
                out.extend(expand(x, depth))
            return out
        if isinstance(e, ast.BinOp) and isinstance(e.op, ast.Add):
            return expand(e.left, depth) + expand(e.right, depth)
        if module is not None and depth < 4 and isinstance(e, ast.Name) and len(module.assign_nodes.get(e.id, [])) == 1:
            v = module.assigns[e.id]
            if isinstance(v, (ast.Tuple, ast.Name, ast.BinOp)):
                return expand(v, depth + 1)
        return [norm_src(e)]

    return expand(h.type)


def stmts_before(module, stmt, func_node):
    """Statements that execute before `stmt` on every path inside func_node's top-level body
    (only top-level order; used for phase ordering)."""
    out = []
    for st in func_node.body:
        if st is stmt or any(n is stmt for n in ast.walk(st)):
            break
        out.append(st)
    return out
