"""E5 — abstract interpreter producing gated value graphs (no execution of the analysed code).

The interpreter walks the AST of a method with an abstract state.  Enum-valued inputs are *slots*
(finite domains); discrete computations on them fold to decision tables (terms.Fin); arithmetic is
kept as canonical polynomials over weight leaves (terms.P).  ``if`` on an undecided condition
evaluates both arms on copies of the state and joins them with ITE (gated SSA).  Loops are
unrolled only over statically known sequences (literal tables, literal lists).  Anything outside
the supported subset raises AnalysisError (exit 2), never a violation.
"""

from __future__ import annotations

import ast
from fractions import Fraction

from . import terms as T
from fractions import Fraction  # noqa
from .consteval import NAN, Dec, Flt, Num, TDict, TList, TTuple, is_num, pure_method, qof
from .srcmodel import AnalysisError, Cls, Func, short
from .terms import ABSENT, ERR, FALSE, TRUE, App, BoolOp, Cmp, Const, Fin, Opaque, P, Term

MAX_DEPTH = 14


class SplitOn(Exception):
    """An expression selects between values of different shape (an object / None, tuples of
    different length): in path-splitting mode the enclosing statement is interpreted once under
    the condition and once under its negation."""

    def __init__(self, cond):
        Exception.__init__(self, "split")
        self.cond = cond


class Dead(Exception):
    """Current path is infeasible or ended in a raise."""


# ---------------------------------------------------------------------------------------------
# runtime values that are not terms


class Ref(object):
    __slots__ = ("id",)

    def __init__(self, i):
        self.id = i

    def __eq__(self, o):
        return isinstance(o, Ref) and o.id == self.id

    def __hash__(self):
        return hash(("ref", self.id))

    def __repr__(self):
        return "Ref(%d)" % self.id


class TupleVal(object):
    def __init__(self, items):
        self.items = tuple(items)

    def __eq__(self, o):
        return isinstance(o, TupleVal) and len(o.items) == len(self.items) and all(
            same(a, b) for a, b in zip(self.items, o.items)
        )

    def __hash__(self):
        return hash(len(self.items))

    def __repr__(self):
        return "Tuple(%s)" % ", ".join(repr(i) for i in self.items)


class FuncVal(object):
    def __init__(self, func, env=None):
        self.func = func
        self.env = env  # Ref to EnvObj of the defining frame (closures)

    def __repr__(self):
        return "<FuncVal %s>" % self.func.qualname


class BoundMeth(object):
    def __init__(self, recv, func):
        self.recv = recv
        self.func = func


class ClassVal(object):
    def __init__(self, cls):
        self.cls = cls

    def __repr__(self):
        return "<Class %s>" % self.cls.qualname


class Choice(object):
    """One of two callables, selected by a condition (`f = A if c else B`); a call evaluates both
    alternatives under their condition and joins the results."""

    def __init__(self, cond, a, b):
        self.cond = cond
        self.a = a
        self.b = b

    def __repr__(self):
        return "<Choice %r / %r>" % (self.a, self.b)


class ExtVal(object):
    """A name from outside the package (decimal.ROUND_CEILING, copy.copy, ...)."""

    def __init__(self, dotted):
        self.dotted = dotted

    def __eq__(self, o):
        return isinstance(o, ExtVal) and o.dotted == self.dotted

    def __hash__(self):
        return hash(self.dotted)

    def __repr__(self):
        return "<ext %s>" % self.dotted


class Builtin(object):
    def __init__(self, name):
        self.name = name

    def __repr__(self):
        return "<builtin %s>" % self.name


class ValMeth(object):
    """method `name` of abstract value `recv`."""

    def __init__(self, recv, name):
        self.recv = recv
        self.name = name


class LambdaVal(object):
    def __init__(self, node, env, module):
        self.node = node
        self.env = env
        self.module = module


CALLABLES = (FuncVal, BoundMeth, ClassVal, Choice, ExtVal, Builtin, LambdaVal)


BUILTINS = set(
    "float str int min max all any len tuple list sorted hash isinstance type dict enumerate zip range "
    "bool abs round sum set frozenset repr print reversed iter next map filter getattr hasattr object "
    "ValueError TypeError KeyError IndexError RuntimeError Exception AssertionError NotImplementedError".split()
)


# heap objects --------------------------------------------------------------------------------


class Inst(object):
    kind = "inst"

    def __init__(self, cls):
        self.cls = cls
        self.attrs = {}

    def copy(self):
        o = Inst(self.cls)
        o.attrs = dict(self.attrs)
        return o


class MapObj(object):
    kind = "map"

    def __init__(self, ordered=False, origin="dict"):
        self.entries = {}  # key -> (present cond, value)
        self.order = []
        self.ordered = ordered
        self.origin = origin  # dict | OrderedDict | parsed
        self.input_ordered = False
        self.default_factory = None  # collections.defaultdict: callable value producing missing entries

    def copy(self):
        o = MapObj(self.ordered, self.origin)
        o.entries = dict(self.entries)
        o.order = list(self.order)
        o.input_ordered = self.input_ordered
        o.default_factory = self.default_factory
        return o

    def set(self, key, present, value):
        if key not in self.entries:
            self.order.append(key)
        self.entries[key] = (present, value)


class ListObj(object):
    kind = "list"

    def __init__(self, items=None):
        self.items = list(items or [])  # (guard, value)
        self.hash_ordered = False

    def copy(self):
        o = ListObj(self.items)
        o.hash_ordered = self.hash_ordered
        o.kind = self.kind
        for a in ("one_shot", "havoc", "havoc_items", "prefix_closed", "iterator"):
            if hasattr(self, a):
                setattr(o, a, getattr(self, a))
        return o


class CallIterObj(object):
    """iter(callable, sentinel): immutable, consumed by a for statement"""

    kind = "calliter"

    def __init__(self, fn, sentinel):
        self.callable = fn
        self.sentinel = sentinel

    def copy(self):
        return self


class EnvObj(object):
    kind = "env"

    def __init__(self, parent, module, func=None):
        self.vars = {}
        self.parent = parent
        self.module = module
        self.func = func

    def copy(self):
        o = EnvObj(self.parent, self.module, self.func)
        o.vars = dict(self.vars)
        if getattr(self, "captured", False):
            o.captured = True
        if hasattr(self, "gen_items"):
            o.gen_items = list(self.gen_items)
            o.gen_pc0 = self.gen_pc0
            if hasattr(self, "gen_consumer"):
                o.gen_consumer = self.gen_consumer
        return o


def same(a, b):
    if a is b:
        return True
    if isinstance(a, Choice) and isinstance(b, Choice):
        return same(a.cond, b.cond) and same(a.a, b.a) and same(a.b, b.b)
    if isinstance(a, Term) and isinstance(b, Term):
        return a == b
    if isinstance(a, (Ref, TupleVal, ExtVal)) and type(a) is type(b):
        return a == b
    if isinstance(a, FuncVal) and isinstance(b, FuncVal):
        return a.func.node is b.func.node and same(a.env, b.env)
    if isinstance(a, ClassVal) and isinstance(b, ClassVal):
        return a.cls.node is b.cls.node
    if isinstance(a, Builtin) and isinstance(b, Builtin):
        return a.name == b.name
    return False


class State(object):
    def __init__(self, space):
        self.space = space
        self.heap = {}
        self.pc = []
        self.dom = {}
        self.facts = set()
        self.constraints = []
        self.dead = False
        self.modenvs = {}

    def copy(self):
        s = State(self.space)
        s.modenvs = dict(self.modenvs)
        s.heap = dict((i, o.copy()) for i, o in self.heap.items())
        s.pc = list(self.pc)
        s.dom = dict(self.dom)
        s.facts = set(self.facts)
        s.constraints = list(self.constraints)
        return s

    def folder(self):
        f = T.Folder(self.space, self.dom)
        if self.constraints:
            f = ConstrainedFolder(self.space, self.dom, self.constraints)
        return f


class ConstrainedFolder(T.Folder):
    def __init__(self, space, dom, constraints):
        T.Folder.__init__(self, space, dom)
        self.cons = list(constraints)

    def rows(self, slots):
        slots, rows = T.Folder.rows(self, slots)
        if rows is None:
            return slots, rows
        for f in self.cons:
            if all(s in slots for s in f.slots):
                idx = [slots.index(s) for s in f.slots]
                rows = [r for r in rows if f.table.get(tuple(r[i] for i in idx), True)]
        return slots, rows


class Event(object):
    def __init__(self, kind, node, module, func, pc, **data):
        self.kind = kind
        self.node = node
        self.module = module
        self.func = func
        self.pc = list(pc)
        self.data = data

    def where(self):
        return self.module.where(self.node) if self.module is not None and self.node is not None else "?"

    def __repr__(self):
        return "<Event %s %s %s>" % (self.kind, self.where(), self.data)


class Outcome(object):
    def __init__(self, status, state, value=None):
        self.status = status  # normal | return | break | continue
        self.state = state
        self.value = value


# ---------------------------------------------------------------------------------------------


class Interp(object):
    def __init__(self, ctx, space):
        self.ctx = ctx
        self.repo = ctx.repo
        self.ce = ctx.ce
        self.space = space
        self.next_id = 1
        self.events = []
        self.models = {}  # Func.node -> callable(interp, state, recv, args, node) (method summaries)
        self.abstractions = {}  # Fin sortkey -> slot name
        self.call_stack = []
        self.trace_calls = []
        self.current_func = None
        self.inline_log = set()

    # -- heap ---------------------------------------------------------------------------
    def alloc(self, st, obj):
        i = self.next_id
        self.next_id += 1
        st.heap[i] = obj
        return Ref(i)

    def event(self, kind, node, module, st, **data):
        ev = Event(kind, node, module, self.current_func, st.pc, **data)
        if getattr(self, "event_dom", False):
            # the rows that reach this point are also narrowed by assumptions that left no path
            # condition (a hazard that was assumed away): keep the domains and joint constraints
            ev.data["dom"] = dict(st.dom)
            ev.data["constraints"] = list(st.constraints)
        self.events.append(ev)
        return ev

    # -- conditions ---------------------------------------------------------------------
    def decide(self, st, c):
        """True/False when the state decides cond c, else None."""
        if isinstance(c, Const):
            return bool(truth_const(c.v))
        if isinstance(c, Fin):
            r = st.folder().restrict(c)
            if isinstance(r, Const):
                return bool(truth_const(r.v))
            vs = set(bool(truth_const(v)) for v in r.table.values())
            if len(vs) == 1:
                return vs.pop()
            if not vs:
                raise Dead()
            return None
        k = c.sortkey()
        if k in st.facts:
            return True
        if isinstance(c, BoolOp):
            if c.op == "not":
                d = self.decide(st, c.args[0])
                return None if d is None else (not d)
            ds = [self.decide(st, a) for a in c.args]
            if c.op == "and":
                if any(d is False for d in ds):
                    return False
                if all(d is True for d in ds):
                    return True
            if c.op == "or":
                if any(d is True for d in ds):
                    return True
                if all(d is False for d in ds):
                    return False
            folded = self.try_fold_bool(st, c)
            if isinstance(folded, (Fin, Const)):
                return self.decide(st, folded)
            return None
        if mk_not(c).sortkey() in st.facts:
            return False
        return None

    def assume(self, st, c):
        """Add c to the path. Raises Dead when infeasible."""
        d = self.decide(st, c)
        if d is True:
            return
        if d is False:
            raise Dead()
        if isinstance(c, Fin):
            fo = st.folder()
            r = fo.restrict(c)
            true_rows = [k for k, v in r.table.items() if truth_const(v)]
            if not true_rows:
                raise Dead()
            for i, s in enumerate(r.slots):
                allowed = set(k[i] for k in true_rows)
                st.dom[s] = tuple(v for v in fo.domain(s) if v in allowed)
            if len(r.slots) > 1:
                st.constraints.append(Fin(r.slots, dict((k, bool(truth_const(v))) for k, v in r.table.items())))
            return
        if isinstance(c, BoolOp):
            if c.op == "and":
                for a in c.args:
                    self.assume(st, a)
                return
            if c.op == "not":
                inner = c.args[0]
                if isinstance(inner, BoolOp) and inner.op == "or":
                    for a in inner.args:
                        self.assume(st, mk_not(a))
                    return
                if isinstance(inner, BoolOp) and inner.op == "not":
                    self.assume(st, inner.args[0])
                    return
        st.facts.add(c.sortkey())

    # -- values -------------------------------------------------------------------------
    def simp(self, st, v):
        """Simplify a value under the state's assumptions (prune decided ITEs, restrict Fins)."""
        if isinstance(v, Fin):
            return self.restrict_fin(st, v)
        if isinstance(v, App) and v.op == "ite":
            d = self.decide(st, v.args[0])
            if d is True:
                return self.simp(st, v.args[1])
            if d is False:
                return self.simp(st, v.args[2])
            return v
        if isinstance(v, P):
            changed = False
            sub = {}
            for a in v.atoms():
                if isinstance(a, App) and a.op == "ite":
                    d = self.decide(st, a.args[0])
                    if d is not None:
                        sub[a] = self.to_poly(st, self.simp(st, a.args[1] if d else a.args[2]), None)
                        changed = True
            if changed:
                return subst_poly(v, sub)
            return v
        if isinstance(v, TupleVal):
            return TupleVal([self.simp(st, x) for x in v.items])
        return v

    def restrict_fin(self, st, f):
        """Restrict a table to the state's domains; returns the same object when nothing changes."""
        touched = False
        for i, sl in enumerate(f.slots):
            d = st.dom.get(sl)
            if d is not None and len(d) != len(self.space.dom[sl]):
                ds = set(d)
                if any(k[i] not in ds for k in f.table):
                    touched = True
                    break
        if not touched:
            for c in st.constraints:
                if all(x in f.slots for x in c.slots):
                    touched = True
                    break
        if not touched:
            for cs, _ in self.space.constraints:
                if all(x in f.slots for x in cs):
                    touched = True
                    break
        if not touched:
            return f
        return st.folder().restrict(f)

    def truth(self, st, v, node=None):
        """Truthiness of a value as a condition term."""
        if isinstance(v, Const):
            return Const(bool(truth_const(v.v)))
        if isinstance(v, Fin):
            r = st.folder().fold(lambda x: bool(truth_const(x)), [v])
            return r if r is not None else v
        if isinstance(v, (Cmp, BoolOp)):
            return v
        if isinstance(v, P):
            if v.kind == "mixed":
                pass
            return T.mk_cmp("!=", v, P.const(0))
        if isinstance(v, App) and v.op == "ite":
            return self.mk_ite(st, v.args[0], self.truth(st, v.args[1]), self.truth(st, v.args[2]))
        if isinstance(v, App) and v.op in ("join", "cat"):
            return App("truth", (v,))
        if isinstance(v, Ref):
            o = st.heap[v.id]
            if o.kind in ("list", "set"):
                if getattr(o, "iterator", False):
                    return TRUE  # an iterator / generator object is true whatever it would yield
                return mk_or([g for g, _ in o.items])
            if o.kind == "map":
                return mk_or([p for p, _ in o.entries.values()])
            return TRUE
        if isinstance(v, TupleVal):
            return Const(len(v.items) > 0)
        if isinstance(v, (FuncVal, BoundMeth, ClassVal, ExtVal, Builtin)):
            return TRUE
        if isinstance(v, (App, Opaque)):
            return App("truth", (v,))
        raise AnalysisError("E5.truth", "truthiness of %r" % (v,), node)

    def mk_ite(self, st, c, a, b):
        if isinstance(c, Const):
            return a if truth_const(c.v) else b
        if same(a, b):
            return a
        if isinstance(c, BoolOp) and isinstance(a, (Const, Fin)) and isinstance(b, (Const, Fin)):
            # a boolean structure of tables is itself a table when small enough
            try:
                c2 = self.try_fold_bool(st, c)
            except (AnalysisError, KeyError):
                c2 = c
            if isinstance(c2, Const):
                return a if truth_const(c2.v) else b
            if isinstance(c2, Fin):
                c = c2
        if isinstance(a, (Const, Fin)) and isinstance(b, (Const, Fin)) and isinstance(c, (Const, Fin)):
            fo = T.Folder(self.space, {})
            # fold on full domains of the *union* of what is known: use state-independent folding
            try:
                r = self._fold_ite(st, c, a, b)
                if r is not None:
                    return r
            except KeyError:
                pass
        if isinstance(a, TupleVal) and isinstance(b, TupleVal) and len(a.items) == len(b.items):
            return TupleVal([self.mk_ite(st, c, x, y) for x, y in zip(a.items, b.items)])
        if isinstance(a, CALLABLES) and isinstance(b, CALLABLES):
            return Choice(c, a, b)
        if is_numeric(a) and is_numeric(b) and not (is_boolish(a) and is_boolish(b)):
            a = self.to_poly(st, a, None)
            b = self.to_poly(st, b, None)
            if same(a, b):
                return a
            d = T.p_add(a, b, -1)
            if d.is_const() and not T.may_nan(a) and not T.may_nan(b):
                # counter idiom: ITE(c, x + k, x) = x + k*[c]  (order-insensitive normal form)
                nc = mk_not(c)
                if not (isinstance(nc, BoolOp) and nc.op == "not") and nc.sortkey() < c.sortkey():
                    c, a, b = nc, b, a
                    d = T.p_neg(d)
                ind = P.atom(App("ind", (c,)), "int")
                return T.p_add(b, T.p_mul(P.const(d.const_value(), d.kind), ind))
            if len(a.terms) > 1 and len(b.terms) >= 1:
                # accumulator idiom: ITE(c, s + t, s) = s + ITE(c, t, 0) when the arms share summands
                # (a running sum updated under a condition equals the sum of conditional terms)
                shared = [m for m in a.terms if m in b.terms and a.terms[m] == b.terms[m]]
                if shared and len(shared) == len(b.terms) and len(d.terms) < len(a.terms):
                    zero = P.const(0, d.kind)
                    return T.p_add(b, P.atom(App("ite", (c, d, zero)), d.kind))
                if shared and len(shared) == len(a.terms) and len(d.terms) < len(b.terms):
                    zero = P.const(0, d.kind)
                    nd = T.p_neg(d)
                    return T.p_add(a, P.atom(App("ite", (mk_not(c), nd, zero)), nd.kind))
        # canonical polarity: the arm with the smaller key comes first
        if isinstance(a, Term) and isinstance(b, Term) and not (is_boolish(a) and is_boolish(b)):
            if b.sortkey() < a.sortkey():
                nc = mk_not(c)
                if not (isinstance(nc, BoolOp) and nc.op == "not"):
                    c, a, b = nc, b, a
        if is_boolish(a) and is_boolish(b):
            return mk_or([mk_and([c, a]), mk_and([mk_not(c), b])])
        if is_numeric(a) and is_numeric(b):
            pa = self.to_poly(st, a, None)
            pb = self.to_poly(st, b, None)
            return P.atom(App("ite", (c, pa, pb)), T.kind_join(pa.kind, pb.kind))
        if isinstance(a, Ref) and isinstance(b, Ref) and a.id in st.heap and b.id in st.heap and st.heap[a.id].kind == st.heap[b.id].kind and st.heap[a.id].kind in ("map", "list", "set"):
            # two different containers selected by a condition: one container with guarded content
            merged = self.merge_obj(st, c, st.heap[a.id], st.heap[b.id])
            return self.alloc(st, merged)
        if isinstance(a, Ref) or isinstance(b, Ref):
            raise AnalysisError("E5.join", "join of distinct heap objects (%r / %r)" % (a, b))
        if isinstance(a, (Term, TupleVal)) and isinstance(b, (Term, TupleVal)):
            if isinstance(a, TupleVal) or isinstance(b, TupleVal):
                raise AnalysisError("E5.join", "join of tuple with non-tuple")
            return App("ite", (c, a, b))
        raise AnalysisError("E5.join", "cannot join %r and %r" % (a, b))

    def _fold_ite(self, st, c, a, b):
        """ITE on tables: rows where c is true take a's row (a may lack other rows) etc."""
        slots = set()
        for x in (c, a, b):
            if isinstance(x, Fin):
                slots.update(x.slots)
        fo = T.Folder(self.space, widen_dom(self.space, st, (c, a, b)))
        slots, rows = fo.rows(slots)
        if rows is None:
            return None

        def get(x, r):
            if isinstance(x, Const):
                return x.v
            key = tuple(r[slots.index(s)] for s in x.slots)
            return x.table.get(key, MISSING)

        table = {}
        for r in rows:
            cv = get(c, r)
            if cv is MISSING:
                continue
            v = get(a, r) if truth_const(cv) else get(b, r)
            if v is MISSING:
                continue
            table[r] = v
        return fo.simplify(Fin(slots, table))

    # -- numeric ------------------------------------------------------------------------
    def to_poly(self, st, v, node, module=None):
        if isinstance(v, P):
            return v
        if isinstance(v, Const):
            x = v.v
            if isinstance(x, bool):
                return P.const(int(x), "int")
            if is_num(x):
                p_ = P.const(qof(x), T.kind_of_const(x))
                if isinstance(x, Num) and x.kind == "dec" and getattr(x, "text", None) is not None:
                    p_.dec_text = x.text  # spelling of a Decimal literal: decides how str() prints it
                return p_
            if x is NAN:
                return P.atom(v, "flt")
            if x is None and st is not None:
                self.event("none_arith", node, module, st, value=v)
                return P.atom(Opaque("None-in-arithmetic"))
            raise AnalysisError("E5.num", "non-numeric constant %r in arithmetic" % (x,), node, module)
        if isinstance(v, Fin):
            kinds = None
            bad = []
            r = st.folder().restrict(v) if st is not None else v
            if isinstance(r, Const):
                return self.to_poly(st, r, node, module)
            for val in r.table.values():
                if val is NAN:
                    kinds = T.kind_join(kinds, "flt")
                elif is_num(val):
                    kinds = T.kind_join(kinds, T.kind_of_const(val))
                else:
                    bad.append(val)
            if bad and st is not None:
                self.event("none_arith", node, module, st, value=r, bad=bad)
            # numeric leaves are compared by exact value: 10, 10.0 and D("10.0") are one leaf
            norm = dict((k, (Fraction(qof(x)) if is_num(x) else x)) for k, x in r.table.items())
            return P.atom(Fin(r.slots, norm), kinds)
        if isinstance(v, App) and v.op == "ite":
            a = self.to_poly(st, v.args[1], node, module)
            b = self.to_poly(st, v.args[2], node, module)
            return P.atom(App("ite", (v.args[0], a, b)), T.kind_join(a.kind, b.kind))
        if isinstance(v, (App, Opaque)):
            return P.atom(v)
        raise AnalysisError("E5.num", "value %r used in arithmetic" % (v,), node, module)

    # -- events about implicit exceptions -----------------------------------------------
    def hazard(self, st, exc, node, module, cond, what):
        d = self.decide(st, cond) if isinstance(cond, Term) else None
        if d is False:
            return
        snap = None
        if getattr(self, "try_depth", 0) > 0:
            # inside a try block: keep the state in which the exception is raised, so that a
            # matching handler can be interpreted from it
            snap = st.copy()
            try:
                if d is None and isinstance(cond, Term):
                    self.assume(snap, cond)
                    snap.pc.append(cond)
            except Dead:
                snap = None
        self.event("hazard", node, module, st, exc=exc, cond=cond, what=what, definite=(d is True), snapshot=snap, frame=self.current_func)


MISSING = T.Sentinel("<missing>")


def widen_dom(space, st, terms):
    """Domains wide enough for every row the given tables mention (used when joining)."""
    dom = dict(st.dom)
    for x in terms:
        if isinstance(x, Fin):
            for i, s in enumerate(x.slots):
                have = set(dom.get(s, space.dom[s]))
                extra = set(k[i] for k in x.table) - have
                if extra:
                    dom[s] = tuple(v for v in space.dom[s] if v in have or v in extra)
    return dom


def truth_const(v):
    if v is ABSENT or v is ERR:
        return False
    if isinstance(v, Num):
        return v.q != 0
    if v is NAN:
        return True
    return bool(v)


def is_boolish(v):
    return isinstance(v, (Cmp, BoolOp)) or (isinstance(v, Const) and isinstance(v.v, bool)) or (
        isinstance(v, Fin) and all(isinstance(x, bool) for x in v.table.values())
    )


def is_numeric(v):
    if isinstance(v, P):
        return True
    if isinstance(v, Const):
        return is_num(v.v) or v.v is NAN
    if isinstance(v, Fin):
        return all(is_num(x) or x is NAN for x in v.table.values())
    return False


def mk_not(c):
    if isinstance(c, Const):
        return Const(not truth_const(c.v))
    if isinstance(c, BoolOp) and c.op == "not":
        return c.args[0]
    if isinstance(c, Fin):
        return Fin(c.slots, dict((k, not truth_const(v)) for k, v in c.table.items()))
    if isinstance(c, Cmp) and not T.may_nan(c.poly):
        return Cmp(T.NEGATE[c.op], c.poly)
    return BoolOp("not", (c,))


def mk_and(cs):
    out = []
    for c in cs:
        if isinstance(c, Const):
            if not truth_const(c.v):
                return FALSE
            continue
        if isinstance(c, BoolOp) and c.op == "and":
            out.extend(c.args)
        else:
            out.append(c)
    uniq = []
    seen = set()
    for c in out:
        k = c.sortkey()
        if k not in seen:
            seen.add(k)
            uniq.append(c)
    if not uniq:
        return TRUE
    if len(uniq) == 1:
        return uniq[0]
    return BoolOp("and", uniq)


def mk_or(cs):
    out = []
    for c in cs:
        if isinstance(c, Const):
            if truth_const(c.v):
                return TRUE
            continue
        if isinstance(c, BoolOp) and c.op == "or":
            out.extend(c.args)
        else:
            out.append(c)
    uniq = []
    seen = set()
    for c in out:
        k = c.sortkey()
        if k not in seen:
            seen.add(k)
            uniq.append(c)
    if not uniq:
        return FALSE
    if len(uniq) == 1:
        return uniq[0]
    return BoolOp("or", uniq)


def prop_reduce(c, max_atoms=8):
    """Propositional simplification of a boolean structure whose leaves could not be folded into one
    table: the leaves (a boolean table and its complement count as one atom) are treated as free
    propositions; returns a constant when the structure is a tautology / contradiction, the single
    literal it is equivalent to, or a disjunction of minterms over the atoms it really depends on."""
    if not isinstance(c, BoolOp):
        return c
    atoms = {}
    # a compound sub-condition that occurs several times (e.g. the `any(...)` guard of an optional
    # group) is one proposition: sound, since a structure that is constant / independent for a free
    # proposition is so for every value the sub-condition can take
    counts = {}

    def count(t):
        if isinstance(t, BoolOp):
            if t.op in ("and", "or"):
                counts[t.sortkey()] = counts.get(t.sortkey(), 0) + 1
            for x in t.args:
                count(x)

    count(c)
    shared = set(k for k, n_ in counts.items() if n_ >= 2 and k != c.sortkey())

    def has_shared_inside(t, top=True):
        if isinstance(t, BoolOp):
            if not top and t.sortkey() in shared:
                return True
            return any(has_shared_inside(x, False) for x in t.args)
        return False

    def prune(t):
        if isinstance(t, BoolOp):
            if t.sortkey() in shared and has_shared_inside(t):
                shared.discard(t.sortkey())
            for x in t.args:
                prune(x)

    prune(c)

    def literal(t):
        n = mk_not(t)
        if isinstance(n, BoolOp) and n.op == "not":
            k, pol = t.sortkey(), True
        else:
            kt, kn = t.sortkey(), n.sortkey()
            k, pol = (kt, True) if kt <= kn else (kn, False)
        if k not in atoms:
            atoms[k] = t if pol else n
        return k, pol

    def build(t):
        if isinstance(t, Const):
            v = bool(truth_const(t.v))
            return lambda a: v
        if isinstance(t, BoolOp) and t.sortkey() not in shared:
            subs = [build(x) for x in t.args]
            if t.op == "not":
                return lambda a: not subs[0](a)
            if t.op == "and":
                return lambda a: all(f(a) for f in subs)
            return lambda a: any(f(a) for f in subs)
        k, pol = literal(t)
        return (lambda a: a[k]) if pol else (lambda a: not a[k])

    f = build(c)
    keys = sorted(atoms)
    if not keys or len(keys) > max_atoms:
        return c
    import itertools

    rows = {}
    for bits in itertools.product((False, True), repeat=len(keys)):
        rows[bits] = bool(f(dict(zip(keys, bits))))
    vals = set(rows.values())
    if len(vals) == 1:
        return Const(vals.pop())
    dep = []
    for i in range(len(keys)):
        if any(rows[b] != rows[b[:i] + (not b[i],) + b[i + 1 :]] for b in rows):
            dep.append(i)
    if len(dep) == len(keys):
        return c
    minterms = set()
    for b, v in rows.items():
        if v:
            minterms.add(tuple(b[i] for i in dep))
    if len(dep) == 1:
        a = atoms[keys[dep[0]]]
        return a if (True,) in minterms else mk_not(a)
    return mk_or([mk_and([atoms[keys[i]] if bit else mk_not(atoms[keys[i]]) for i, bit in zip(dep, mt)]) for mt in sorted(minterms)])


def subst_poly(p, sub):
    """Replace atoms by polynomials."""
    out = P({}, p.kind)
    for m, c in p.terms.items():
        term = P.const(c, p.kind)
        for a, e in m:
            base = sub.get(a)
            if base is None:
                base = P.atom(a, p.kind)
            term = T.p_mul(term, T.p_pow(base, e))
        out = T.p_add(out, term)
    return out
