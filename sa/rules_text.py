"""C13 — parse_cvss_from_text: totality, soundness, completeness for delimited vectors, dedup."""

from __future__ import annotations

import ast

from . import guards as G
from . import rx
from .ctx import VERSIONS
from .rules_parse import call_of, exception_hierarchy, parse_summary
from .srcmodel import AnalysisError, norm_src, short

sre_c = rx.sre_c


def find_regex(ctx, f):
    """The constant pattern whose findall() result feeds the candidate loop."""
    module = f.module
    find_regex.flags = set()
    for n in ast.walk(f.node):
        if isinstance(n, ast.Call) and isinstance(n.func, ast.Attribute) and n.func.attr in ("findall", "finditer"):
            recv = n.func.value
            # re.compile(P).findall(text)  |  re.findall(P, text)
            if isinstance(recv, ast.Call) and isinstance(recv.func, ast.Attribute) and recv.func.attr == "compile":
                parg = recv.args[0] if recv.args else None
                flags = recv.args[1:] or recv.keywords
            elif isinstance(recv, ast.Name) and recv.id == "re":
                parg = n.args[0] if n.args else None
                flags = n.args[2:] or n.keywords
            else:
                continue
            fl = set()
            for fx in flags:
                fx = fx.value if isinstance(fx, ast.keyword) else fx
                for part in ast.walk(fx):
                    if isinstance(part, ast.Attribute) and isinstance(part.value, ast.Name) and part.value.id == "re":
                        fl.add({"I": "IGNORECASE", "A": "ASCII"}.get(part.attr, part.attr))
                    elif isinstance(part, (ast.BinOp, ast.BitOr, ast.Name, ast.Load)):
                        continue
                    else:
                        raise AnalysisError("C13.regex", "regex flags expression not modelled", n, module)
            if fl - {"IGNORECASE", "ASCII"}:
                raise AnalysisError("C13.regex", "regex flags %s are not modelled" % sorted(fl), n, module)
            find_regex.flags = fl
            try:
                pat = ctx.ce.eval(module, parg, "C13.regex")
            except AnalysisError:
                raise AnalysisError("C13.regex", "candidate regex is not a constant", n, module)
            if not isinstance(pat, str):
                raise AnalysisError("C13.regex", "candidate regex is not a string", n, module)
            return n, pat
    raise AnalysisError("C13.regex", "no findall() on a constant pattern in parse_cvss_from_text", f.node, module)


def first_chars_and_min_len(accepted, mandatory, prefixes):
    """First characters a valid vector can start with, and the length of the shortest body."""
    firsts = set(p[0] for p in prefixes if p)
    if not any(prefixes) or "" in prefixes:
        firsts |= set(k[0] for k in accepted)
    body = 0
    for k in mandatory:
        body += len(k) + 1 + min(len(x) for x in accepted[k])
    body += len(mandatory) - 1
    return firsts, body


def check_c13(ctx, led):
    """The semantic analysis (rules_text_sem: symbolic candidate lists, constructors replaced by the
    grammar) decides the candidate loop and supplies the pattern that is searched; the idiom rules
    for the loop are then an informational cross-check.  They decide only when the function cannot
    be interpreted."""
    from .rules_parse import InfoLedger
    from .rules_text_sem import check_text_semantics

    f = ctx.repo.function("parser", "parse_cvss_from_text")
    try:
        ts, n_sem = check_text_semantics(ctx, led)
    except AnalysisError as e:
        if e.rule == "C13.regex":
            raise
        led.info("C13.sem", "parser.parse_cvss_from_text", "cvss/parser.py", "the function could not be interpreted over symbolic candidates (%s): the idiom rules decide instead" % e.message)
        # the idiom rules are stricter than the property (they know one way of writing the loop)
        # and look at the loop only: neither their silence nor their complaints decide a function
        # the semantic analysis could not follow.  They are recorded as information.
        try:
            call, pat = find_regex(ctx, f)
            check_regex(ctx, InfoLedger(led), f, call, f.module, pat, getattr(find_regex, "flags", set()))
            check_loop_idioms(ctx, InfoLedger(led), f)
        except AnalysisError:
            pass
        raise e
    led.count("candidate_sequences", n_sem)
    pats = set((p, tuple(sorted(fl))) for p, fl, _, _ in ts.patterns)
    if len(pats) != 1:
        raise AnalysisError("C13.regex", "the runs search %d different patterns" % len(pats), f.node, f.module)
    pat, flags, node, module = ts.patterns[0]
    if set(flags) - {"IGNORECASE", "ASCII"}:
        raise AnalysisError("C13.regex", "regex flags %s are not modelled" % sorted(flags), node, module)
    check_regex(ctx, led, f, node, module, pat, set(flags), via_findall=getattr(ts, "via_findall", True))
    try:
        check_loop_idioms(ctx, InfoLedger(led), f)
    except AnalysisError as e:
        led.info("C13.idioms", "parser.parse_cvss_from_text", "cvss/parser.py", "idiom rules not applicable: %s" % e.message)
    return max(2, len(ts.ctor_sites))


def check_regex(ctx, led, f, call, module, pat, flags, via_findall=True):
    where = module.where(f.node)
    ck_rx = "parser.parse_cvss_from_text::regex"
    tree = rx.parse(pat)
    led.count("regex_nodes", len(list(tree)))
    # ---- sound: no capturing group
    groups = tree.state.groups - 1 if hasattr(tree, "state") else 0
    led.check(
        groups == 0 or not via_findall,  # match objects (finditer) give the whole match whatever the groups
        "C13.sound.groups",
        ck_rx,
        module.where(call),
        "the candidate regex has %d capturing group(s): findall() then returns the groups, not the matched text" % groups,
    )
    # ---- shape: (optional group)? class{n,}
    items = list(tree)
    # anchors around the shape: the property's delimiters are the characters outside [A-Za-z:/]
    # (or the text boundary); digits and '_' are such delimiters but are word characters, and a
    # vector begins and ends with a letter, so a \b at either end fails exactly there
    lead = []
    while items and items[0][0] is sre_c.AT:
        lead.append(items.pop(0)[1])
    trail = []
    while items and items[-1][0] is sre_c.AT:
        trail.append(items.pop()[1])
    for side, ats in (("before", lead), ("after", trail)):
        for at in ats:
            nm = str(at)
            if "NON_BOUNDARY" in nm:
                led.violation("C13.complete.anchor", ck_rx + " anchor", module.where(call), "\\B %s the candidate: a vector delimited by a blank or punctuation is never matched" % side)
            elif "BOUNDARY" in nm:
                led.violation(
                    "C13.complete.anchor",
                    ck_rx + " anchor",
                    module.where(call),
                    "\\b %s the candidate: a valid vector delimited by a digit, '_' or a non-ASCII letter (all outside [A-Za-z:/], all word "
                    "characters) is not matched, e.g. 'x_AV:N/...' or '...A:P7'" % side,
                )
            else:
                led.violation("C13.complete.anchor", ck_rx + " anchor", module.where(call), "the anchor %s %s the candidate restricts matches to the beginning / end of the text or of a line" % (nm, side))
    if not (
        len(items) == 2
        and items[0][0] is sre_c.MAX_REPEAT
        and items[0][1][0] == 0
        and items[0][1][1] == 1
        and items[1][0] is sre_c.MAX_REPEAT
        and len(items[1][1][2]) == 1
        and items[1][1][2][0][0] is sre_c.IN
    ):
        raise AnalysisError("C13.complete", "candidate regex is not of the shape (optional prefix)(class){n,}: %r" % pat, call, module)
    gsub = items[0][1][2]
    gseq = list(gsub)
    if len(gseq) == 1 and gseq[0][0] is sre_c.SUBPATTERN:
        gseq = list(gseq[0][1][3])
    n_min = items[1][1][0]
    n_max = None if items[1][1][1] is sre_c.MAXREPEAT else items[1][1][1]
    univ = [chr(c) for c in range(32, 127)]
    cls = rx.charset_of(items[1][1][2][0][1], univ + [rx.OTHER])
    if "IGNORECASE" in flags:
        cls = set(cls)
        for c in list(cls):
            if c.isalpha():
                cls |= {c.lower(), c.upper()}
        if "ASCII" not in flags:
            # Unicode case folding: [a-z] with IGNORECASE also matches these four characters
            for base, extra in (("i", "\u0130"), ("i", "\u0131"), ("s", "\u017f"), ("k", "\u212a")):
                if base in cls:
                    cls.add(extra)
    allowed = set("ABCDEFGHIJKLMNOPQRSTUVWXYZabcdefghijklmnopqrstuvwxyz:/")
    extra = sorted(c for c in cls if c not in allowed and c != rx.OTHER)
    led.check(
        not extra and rx.OTHER not in cls,
        "C13.complete.delimiters",
        ck_rx + " class",
        module.where(call),
        "the candidate class also matches %s, characters outside [A-Za-z:/]: a valid vector delimited by one of them is glued "
        "to it and lost" % [("U+%04X" % ord(c)) for c in extra[:6]],
    )
    info2, info3 = parse_summary(ctx, 2), parse_summary(ctx, 3)
    acc2, acc3 = info2["accepted"], info3["accepted"]
    spec2, spec3 = ctx.vspec(2), ctx.vspec(3)
    # (i) alphabet
    need = set("/:")
    for acc in (acc2, acc3):
        for k, vals in acc.items():
            need |= set(k)
            for x in vals or []:
                need |= set(x)
    missing = sorted(need - cls)
    led.check(
        not missing,
        "C13.complete.alphabet",
        ck_rx,
        module.where(call),
        "the candidate character class lacks %s, which occur in valid v2/v3 vectors: such vectors are never found" % missing,
    )
    # (ii) minimum length
    f2, len2 = first_chars_and_min_len(acc2, spec2["mandatory"], [""])
    f3, len3 = first_chars_and_min_len(acc3, spec3["mandatory"], sorted(info3["prefixes"]))
    led.check(
        n_min <= len2 and n_min <= len3,
        "C13.complete.minlen",
        ck_rx,
        module.where(call),
        "the class must repeat at most %d (shortest valid v2 vector) / %d (shortest v3 body) times at minimum; {%d,} "
        "skips shorter valid vectors" % (len2, len3, n_min),
    )
    # (ii-b) a finite upper repetition bound must not cut the longest valid vector short
    def longest(acc, prefixes):
        body = sum(len(k) + 1 + max(len(x) for x in (vals or [""])) for k, vals in acc.items()) + len(acc) - 1
        return body, max([len(p) for p in prefixes] or [0])

    b2, _ = longest(acc2, [""])
    b3, p3 = longest(acc3, sorted(info3["prefixes"]))
    led.check(
        n_max is None or (n_max >= b2 and n_max >= b3),
        "C13.complete.maxlen",
        ck_rx,
        module.where(call),
        "the class repeats at most %s times, but the longest valid v2 vector has %d characters and the longest v3 body %d "
        "(after the %d-character prefix): such vectors are cut short and rejected" % (n_max, b2, b3, p3),
    )
    # (iii) every accepted v3 prefix is in the language of the optional group
    gdfa = rx.DFA("<group>", extra_chars="".join(univ), tree=gseq)
    for p in sorted(info3["prefixes"]):
        led.check(
            gdfa.fullmatch(p),
            "C13.complete.prefix",
            ck_rx + " prefix " + p,
            module.where(call),
            "accepted prefix %r is not matched by the optional prefix group: such vectors lose their prefix and are rejected" % p,
        )
    # no straddling of the left delimiter
    firsts = f2 | f3
    gsets = []
    for node in gseq:
        op, av = node
        if op is sre_c.LITERAL:
            gsets.append({chr(av)})
        elif op is sre_c.IN:
            gsets.append(rx.charset_of(av, univ + [rx.OTHER]) - {rx.OTHER})
        elif op is sre_c.ANY:
            gsets.append(set(univ))
        else:
            raise AnalysisError("C13.complete", "prefix group element %s not modelled" % (op,), call, module)
    for i, cs in enumerate(gsets):
        nonclass = cs - cls
        if not nonclass:
            continue
        if i == len(gsets) - 1:
            led.violation(
                "C13.complete.straddle",
                ck_rx,
                module.where(call),
                "the prefix group ends with a character outside the class: a delimiter can be absorbed into the match",
            )
            continue
        led.check(
            not (gsets[i + 1] & firsts),
            "C13.complete.straddle",
            ck_rx + " group[%d]" % i,
            module.where(call),
            "a delimiter %s matched by the prefix group can be followed by %s, which may start a valid vector: the vector is "
            "then swallowed into a longer, invalid candidate" % (sorted(nonclass)[:3], sorted(gsets[i + 1] & firsts)[:3]),
        )


def check_loop_idioms(ctx, led, f):
    module = f.module
    where = module.where(f.node)
    info3 = parse_summary(ctx, 3)
    acc2 = parse_summary(ctx, 2)["accepted"]
    # ---- candidate loop
    loops = [n for n in ast.walk(f.node) if isinstance(n, ast.For)]
    ctor_calls = []
    for n in ast.walk(f.node):
        if isinstance(n, ast.Call) and isinstance(n.func, ast.Name):
            r = ctx.repo.resolve_global(module, n.func.id)
            if r and r[0] == "class" and r[1].name in ("CVSS2", "CVSS3", "CVSS4"):
                ctor_calls.append((n, r[1]))
    if not ctor_calls:
        raise AnalysisError("C13.sound", "no constructor call in parse_cvss_from_text", f.node, module)
    anc = exception_hierarchy(ctx)
    for n, cls_ in ctor_calls:
        ck = "parser.parse_cvss_from_text::%s" % short(n)
        v = int(cls_.name[-1])
        # argument is the raw match
        loop = None
        for l in loops:
            if any(x is n for x in ast.walk(l)):
                loop = l
        arg_ok = (
            loop is not None
            and len(n.args) == 1
            and isinstance(n.args[0], ast.Name)
            and isinstance(loop.target, ast.Name)
            and n.args[0].id == loop.target.id
            and len([x for x in ast.walk(f.node) if isinstance(x, ast.Name) and x.id == loop.target.id and isinstance(x.ctx, ast.Store)]) == 1
        )
        led.check(
            arg_ok,
            "C13.sound.arg",
            ck,
            module.where(n),
            "the constructor must receive the matched text itself (the loop variable over the matches), untransformed",
        )
        # total: inside try with a handler covering every exception the constructor lets out
        needed = ["CVSS%dMalformedError" % v, "CVSS%dMandatoryError" % v]
        tries = G.enclosing_try_handlers(module, n)
        covered = set()
        for t in tries:
            for h in t.handlers:
                for nm in G.handler_names(h, module):
                    base = nm.split(".")[-1]
                    for ex in needed:
                        if base in ("*", "Exception", "BaseException") or base == ex or base in anc.get(ex, []):
                            if not any(isinstance(x, ast.Raise) for x in ast.walk(h)):
                                covered.add(ex)
        led.check(
            covered == set(needed),
            "C13.total",
            ck,
            module.where(n),
            "exceptions %s of the constructor are not caught: parse_cvss_from_text raises on near-valid text"
            % sorted(set(needed) - covered),
        )
        # dispatch
        facts = G.dominating_facts(module, n)
        disp = [fa for fa in facts if call_of(fa.expr, "startswith") and isinstance(call_of(fa.expr, "startswith")[0], ast.Name)]
        lits = []
        for fa in disp:
            a = call_of(fa.expr, "startswith")[1]
            if len(a) == 1 and isinstance(a[0], ast.Constant):
                lits.append((a[0].value, fa.pol))
        if v == 3:
            okd = any(pol and all(p.startswith(l) for p in info3["prefixes"]) for l, pol in lits)
            led.check(
                okd,
                "C13.sound.dispatch",
                ck,
                module.where(n),
                "every candidate starting like an accepted v3 prefix must be sent to CVSS3 (dispatch literals found: %s)" % lits,
            )
        if v == 2:
            okd = all((not pol) and not any(k.startswith(l) or l.startswith(k + ":") for k in acc2) for l, pol in lits) if lits else True
            led.check(okd, "C13.sound.dispatch", ck, module.where(n), "valid v2 vectors can be diverted away from CVSS2 (dispatch: %s)" % lits)
    # ---- dedup
    ret = [n for n in ast.walk(f.node) if isinstance(n, ast.Return) and n.value is not None]
    acc_name = None
    kind = None
    for n in ast.walk(f.node):
        if isinstance(n, ast.Assign) and isinstance(n.targets[0], ast.Name):
            if isinstance(n.value, ast.Call) and isinstance(n.value.func, ast.Name) and n.value.func.id in ("set",) and not n.value.args:
                acc_name, kind = n.targets[0].id, "set"
            elif isinstance(n.value, ast.List) and not n.value.elts:
                acc_name, kind = n.targets[0].id, "list"
    okdd = False
    if kind == "set":
        okdd = True
    elif kind == "list":
        for n in ast.walk(f.node):
            if (
                isinstance(n, ast.Call)
                and isinstance(n.func, ast.Attribute)
                and n.func.attr == "append"
                and isinstance(n.func.value, ast.Name)
                and n.func.value.id == acc_name
            ):
                st = n
                while not isinstance(st, ast.stmt):
                    st = module.parent(st)
                facts = G.dominating_facts(module, st)
                okdd = any(
                    (not fa.pol)
                    and isinstance(fa.expr, ast.Compare)
                    and isinstance(fa.expr.ops[0], ast.In)
                    and isinstance(fa.expr.comparators[0], ast.Name)
                    and fa.expr.comparators[0].id == acc_name
                    and n.args
                    and norm_src(fa.expr.left) == norm_src(n.args[0])
                    for fa in facts
                )
    led.check(
        okdd,
        "C13.dedup",
        "parser.parse_cvss_from_text::result accumulation",
        where,
        "results must be accumulated in a set or appended only when not already present (==): equal objects can be returned twice",
    )
    for r in ret:
        src = norm_src(r.value)
        led.check(
            acc_name is not None and (src == acc_name or src in ("list(%s)" % acc_name, "sorted(%s)" % acc_name)),
            "C13.dedup.return",
            "parser.parse_cvss_from_text::%s" % short(r),
            module.where(r),
            "the function must return the de-duplicated collection",
        )
    return len(ctor_calls)
