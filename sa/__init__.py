"""Static analysis machinery for the cvss properties (see /verif/DESIGN.md).

Nothing in this package imports or executes code from the analysed repository: every
verdict is computed from the parsed source text of ``$VERIF_REPO/cvss/*.py``.
"""
