"""C10 (abstract validation of as_json against the pinned FIRST schemas) and C11 (faithfulness)."""

from __future__ import annotations

from fractions import Fraction

from . import terms as T
from .canon import Canon, explain_diff
from .consteval import is_num, qof
from .ctx import VERSIONS
from .interp import Dead, Ref, TupleVal, mk_and, mk_not, mk_or
from .interp_expr import deps_of
from .objmodel import metric_slot
from .rules_score import SCORE_ATTRS, get_model
from .rules_sev import GRID, check_json_scores, official_label, score_slots
from .srcmodel import AnalysisError, short
from .terms import ABSENT, App, BoolOp, Cmp, Const, Fin, Opaque, P, Term

COMBOS = [(False, False), (False, True), (True, False), (True, True)]
SCHEMA = {2: ["cvss-v2.0.json"], 3: ["cvss-v3.0.json", "cvss-v3.1.json"], 4: ["cvss-v4.0.json"]}
SCORE_KEYS = ("baseScore", "temporalScore", "environmentalScore", "threatScore")
SEV_KEYS = ("baseSeverity", "temporalSeverity", "environmentalSeverity", "threatSeverity")


def json_maps(ctx, v):
    key = ("jsonmaps", v)
    if key in ctx.memo:
        return ctx.memo[key]
    om = get_model(ctx, v)
    out = {}
    for sort, minimal in COMBOS:
        n0 = len(om.ev.events)
        try:
            val, st, evs = om.call("as_json", [], {"sort": Const(sort), "minimal": Const(minimal)})
        except Dead:
            out[(sort, minimal)] = None
            continue
        if not (isinstance(val, Ref) and st.heap[val.id].kind == "map"):
            raise AnalysisError("C10.shape", "as_json() does not return a dict: %r" % (val,))
        out[(sort, minimal)] = (st.heap[val.id], st, om.ev.events[n0:], val)
    ctx.memo[key] = out
    return out


def possible_values(t, st, om):
    """Finite set of possible Python values of a term, or ("number",) / None when not finite."""
    if isinstance(t, Const):
        return {t.v}
    if isinstance(t, Fin):
        r = st.folder().restrict(t)
        if isinstance(r, Const):
            return {r.v}
        return set(r.table.values())
    if isinstance(t, App) and t.op == "ite":
        d = None
        try:
            d = om.ev.decide(st, t.args[0])
        except Exception:
            d = None
        if d is True:
            return possible_values(t.args[1], st, om)
        if d is False:
            return possible_values(t.args[2], st, om)
        a = possible_values(t.args[1], st, om)
        b = possible_values(t.args[2], st, om)
        if isinstance(a, set) and isinstance(b, set):
            return a | b
        # a number on one side, constants that are not numbers (None) on the other: both can occur
        for x, y in ((a, b), (b, a)):
            if (x == ("number",) or (isinstance(x, tuple) and x and x[0] == "mixed")) and (isinstance(y, set) or (isinstance(y, tuple) and y and y[0] == "mixed")):
                cx = set(x[1]) if x[0] == "mixed" else set()
                cy = set(y) if isinstance(y, set) else set(y[1])
                if x[0] == "mixed" or not all(is_num(v) for v in cy):
                    return ("mixed", frozenset(cx | cy))
        if a == ("number",) and b == ("number",):
            return ("number",)
        if a == ("number",) and isinstance(b, set) and all(is_num(x) for x in b):
            return ("number",)
        if b == ("number",) and isinstance(a, set) and all(is_num(x) for x in a):
            return ("number",)
        return None
    if isinstance(t, P):
        if t.is_const():
            return {t.const_value()}
        return ("number",)
    if isinstance(t, App) and t.op in ("str", "cat", "join", "fmt", "repr"):
        return ("string",)
    return None


def resolve(schema, node):
    while isinstance(node, dict) and "$ref" in node:
        ref = node["$ref"]
        if not ref.startswith("#/"):
            raise AnalysisError("C10.schema", "external $ref %s" % ref)
        cur = schema
        for part in ref[2:].split("/"):
            cur = cur[part]
        node = cur
    return node


def admits(schema, node, value):
    """Does the (sub)schema admit this concrete JSON value?  Supports the subset the four FIRST
    schemas use.  Numbers are exact rationals: multipleOf is treated mathematically."""
    node = resolve(schema, node)
    if "const" in node and node["const"] != value:
        return False
    if "enum" in node and value not in node["enum"]:
        return False
    t = node.get("type")
    if t == "string" and not isinstance(value, str):
        return False
    if t == "number" and not (isinstance(value, (int, Fraction)) and not isinstance(value, bool)):
        return False
    if isinstance(value, (int, Fraction)) and not isinstance(value, bool):
        q = Fraction(value)
        if "minimum" in node and q < Fraction(str(node["minimum"])):
            return False
        if "maximum" in node and q > Fraction(str(node["maximum"])):
            return False
        if "multipleOf" in node and (q / Fraction(str(node["multipleOf"]))).denominator != 1:
            return False
    for sub in node.get("allOf", []):
        if not admits(schema, sub, value):
            return False
    if "anyOf" in node and not any(admits(schema, sub, value) for sub in node["anyOf"]):
        return False
    if "pattern" in node and isinstance(value, str):
        import re

        if re.search(node["pattern"], value) is None:
            return False
    return True


def check_c10(ctx, led, v):
    om = get_model(ctx, v)
    maps = json_maps(ctx, v)
    f = ctx.repo.method(om.modname, om.clsname, "as_json")
    where = om.module.where(f.node)
    n = 0
    reported = set()

    def viol(rule, ck, w, what, **kw):
        if (rule, ck) in reported:
            return
        reported.add((rule, ck))
        led.violation(rule, ck, w, what, **kw)

    _, sev_tables = check_json_scores(ctx, _Null(), v)
    for sname in SCHEMA[v]:
        schema = ctx.schema(sname)
        props = schema.get("properties", {})
        minor = None
        if v == 3:
            minor = 0 if "3.0" in sname else 1
        for combo, res in sorted(maps.items()):
            label = "sort=%s,minimal=%s" % combo
            if res is None:
                viol("C10.shape", "%s.as_json(%s)" % (om.clsname, label), where, "as_json raises")
                continue
            o, st, evs, ref = res
            st2 = st.copy()
            if minor is not None:
                if minor not in st2.folder().domain("minor"):
                    continue
                st2.dom["minor"] = (minor,)
            cn = Canon(om.ev, st2)
            # required keys
            for rk in schema.get("required", []):
                n += 1
                p = cn(o.entries[rk][0]) if rk in o.entries else Const(False)
                if not (isinstance(p, Const) and p.v is True):
                    viol(
                        "C10.required",
                        "%s.as_json[%s] required by %s" % (om.clsname, rk, sname),
                        where,
                        "key %r is required by %s but is not always emitted (%s)" % (rk, sname, label),
                    )
                else:
                    led.ok("C10.required", "%s.as_json[%s] %s %s" % (om.clsname, rk, sname, label), where)
            # emitted keys that the schema constrains
            for k in o.order:
                if k not in props:
                    continue
                p, x = o.entries[k]
                pc = cn(p)
                if isinstance(pc, Const) and pc.v is False:
                    continue
                n += 1
                xv = cn(x) if isinstance(x, Term) else x
                ck = "%s.as_json[%s]" % (om.clsname, k)
                node = props[k]
                if k == "vectorString":
                    continue  # language inclusion: C10.vectorString
                if k in SEV_KEYS and k in sev_tables:
                    bad = sorted(set(t for t in sev_tables[k].values() if not (t is not None and admits(schema, node, t))), key=str)
                    if bad:
                        viol(
                            "C10.validate",
                            ck + " severity token",
                            where,
                            "%s can be %r, which %s does not admit (allowed: %s)" % (k, bad[0], sname, resolve(schema, node).get("enum", resolve(schema, node))),
                        )
                    else:
                        led.ok("C10.validate", ck + " " + sname + " " + label, where)
                    continue
                vals = possible_values(xv, st2, om)
                if vals is None:
                    raise AnalysisError("C10.shape", "cannot enumerate the possible values of %s: %r" % (k, xv), f.node, om.module)
                if isinstance(vals, tuple) and vals and vals[0] == "mixed":
                    rn = resolve(schema, node)
                    badc = sorted((x for x in vals[1] if not admits(schema, node, _json(x))), key=str)
                    if badc:
                        viol("C10.validate", "%s = %r" % (ck, badc[0]), where, "%s can be %r (besides a number), which %s does not admit" % (k, _json(badc[0]), sname))
                    elif rn.get("type") != "number":
                        viol("C10.validate", ck + " type", where, "%s is emitted as a number, %s expects %s" % (k, sname, rn.get("type")))
                    else:
                        led.ok("C10.validate", ck + " " + sname + " " + label, where, "number or admitted constants")
                    continue
                if vals == ("string",):
                    rn = resolve(schema, node)
                    if rn.get("type") == "number":
                        viol("C10.validate", ck + " type", where, "%s is emitted as a string, %s expects a number" % (k, sname))
                        continue
                    raise AnalysisError("C10.shape", "cannot enumerate the possible values of %s: %r" % (k, xv), f.node, om.module)
                if vals == ("number",):
                    rn = resolve(schema, node)
                    good = rn.get("type") == "number"
                    if not good:
                        viol("C10.validate", ck + " type", where, "%s is emitted as a number, %s expects %s" % (k, sname, rn.get("type")))
                    else:
                        led.ok("C10.validate", ck + " " + sname + " " + label, where, "number; range by C09.range")
                    continue
                bad = sorted((x for x in vals if not admits(schema, node, _json(x))), key=str)
                if bad:
                    viol(
                        "C10.validate",
                        "%s = %r" % (ck, bad[0]),
                        where,
                        "%s can be %r, which %s does not admit (%s)" % (k, bad[0], sname, _allowed(schema, node)),
                    )
                else:
                    led.ok("C10.validate", ck + " " + sname + " " + label, where)
        # v4: score / severity pairing (allOf of anyOf)
        if v == 4 and "baseSeverity" in sev_tables:
            bad = []
            for q in GRID:
                n += 1
                inst = {"baseScore": q, "baseSeverity": sev_tables["baseSeverity"][q]}
                okp = True
                for grp in schema.get("allOf", []):
                    alts = grp.get("anyOf", [])
                    if not alts or "baseScore" not in alts[0].get("properties", {}):
                        continue
                    if not any(
                        all(admits(schema, sub, inst[key]) for key, sub in alt.get("properties", {}).items() if key in inst)
                        for alt in alts
                    ):
                        okp = False
                if not okp:
                    bad.append((float(q), inst["baseSeverity"]))
            if bad:
                # is it only the letter case of the token?  (then the finding is about the statement
                # that stores the un-normalised rating, not about the thresholds)
                def pair_ok(q, tok):
                    inst2 = {"baseScore": q, "baseSeverity": tok}
                    for grp in schema.get("allOf", []):
                        alts = grp.get("anyOf", [])
                        if not alts or "baseScore" not in alts[0].get("properties", {}):
                            continue
                        if not any(
                            all(admits(schema, sub, inst2[key]) for key, sub in alt.get("properties", {}).items() if key in inst2)
                            for alt in alts
                        ):
                            return False
                    return True

                case_only = all(
                    isinstance(sev_tables["baseSeverity"][q], str) and pair_ok(q, sev_tables["baseSeverity"][q].upper()) for q in GRID
                )
                if case_only:
                    viol(
                        "C10.validate",
                        "CVSS4.as_json::baseSeverity token is not upper-cased",
                        where,
                        "baseSeverity is emitted as %r; the schema's severity constants are upper case (%r): the (baseScore, "
                        "baseSeverity) pair matches no anyOf alternative for any score" % (bad[0][1], str(bad[0][1]).upper()),
                    )
                else:
                    viol(
                        "C10.validate",
                        "CVSS4.as_json[baseScore/baseSeverity] pairing",
                        where,
                        "the (baseScore, baseSeverity) pair violates the schema's anyOf for %d grid score(s), e.g. %s" % (len(bad), bad[0]),
                    )
    return n


class _Null(object):
    def __getattr__(self, name):
        return lambda *a, **k: True


def _json(x):
    if isinstance(x, T.Sentinel):
        return None
    if is_num(x) and not isinstance(x, int):
        return qof(x)
    return x


def _allowed(schema, node):
    r = resolve(schema, node)
    if "enum" in r:
        return "allowed: %s" % r["enum"]
    if "const" in r:
        return "allowed: %r" % r["const"]
    return str(r)[:120]


# ---------------------------------------------------------------------------------------------
# C11


def check_c11(ctx, led, v):
    om = get_model(ctx, v)
    spec = ctx.vspec(v)
    nd = spec["nd"]
    maps = json_maps(ctx, v)
    f = ctx.repo.method(om.modname, om.clsname, "as_json")
    where = om.module.where(f.node)
    const = VERSIONS[v]["const"]
    n = 0
    full = maps.get((False, False))
    if full is None:
        led.violation("C11.shape", "%s.as_json" % om.clsname, where, "as_json() raises")
        return 0
    o, st, evs, ref = full
    cn = Canon(om.ev, st)
    # ---- identity fields
    vs = o.entries.get("vectorString")
    led.check(
        vs is not None and isinstance(vs[1], Opaque) and vs[1].tag == "vector",
        "C11.id",
        "%s.as_json[vectorString]" % om.clsname,
        where,
        "vectorString must be the string supplied to the constructor, untransformed (found %r)" % (vs[1] if vs else None,),
    )
    ver = o.entries.get("version")
    okv = False
    if ver is not None:
        xv = cn(ver[1])
        d = deps_of(xv)
        okv = d <= {"minor"} and (v != 3 or "minor" in d)
        if v == 3 and isinstance(xv, Fin):
            okv = okv and all(xv.table[(m,)] == "3.%s" % m for (m,) in xv.table)
    led.check(
        okv,
        "C11.id",
        "%s.as_json[version]" % om.clsname,
        where,
        "version must identify the CVSS version of the object (and distinguish 3.0 from 3.1); found %r" % (ver[1] if ver else None,),
    )
    # ---- metric fields
    keytab = ctx.ce.table(const, "METRICS_ABBREVIATIONS_JSON", "C11.metrics")
    modified_of = spec.get("modified_of", {})
    names = spec["value_names"]
    want_keys = spec.get("json_keys")
    fo = st.folder()
    seen_keys = {}
    for k in om.accepted:
        n += 1
        jk = keytab.get(k)
        ck = "%s.as_json metric %s" % (om.clsname, k)
        if jk is None or jk not in o.entries:
            led.violation("C11.metrics", ck, where, "metric %s has no JSON field in the full output" % k)
            continue
        if jk in seen_keys:
            led.violation("C11.metrics.key", ck, where, "metrics %s and %s share the JSON key %r: one overwrites the other" % (seen_keys[jk], k, jk))
        seen_keys[jk] = k
        if want_keys is not None:
            led.check(
                want_keys.get(k) == jk,
                "C11.metrics.key",
                ck,
                where,
                "JSON key of %s is %r, the schema calls it %r" % (k, jk, want_keys.get(k)),
            )
        p, x = o.entries[jk]
        xv = cn(x)
        s = metric_slot(k)
        # expected: token of the effective value
        if k in modified_of:
            b = modified_of[k]
            sb_ = metric_slot(b)
            sl, rows = fo.rows(tuple(sorted([s, sb_])))
            eff = {}
            for r in rows:
                vk, vb = r[sl.index(s)], r[sl.index(sb_)]
                eff[r] = vb if vk in (ABSENT, nd) else vk
            if v == 4:
                # v4 name tables of modified metrics differ from the base ones (N = Negligible):
                # the token is looked up in the modified metric's own row
                exp = fo.simplify(Fin(sl, dict((r, names[k].get(e)) for r, e in eff.items())))
            else:
                exp = fo.simplify(Fin(sl, dict((r, names[k].get(e)) for r, e in eff.items())))
        else:
            exp = fo.simplify(
                Fin((s,), dict(((val,), names[k].get(nd if val is ABSENT else val)) for val in fo.domain(s)))
            )
        if xv == exp:
            led.ok("C11.metrics", ck, where, "token of the effective value")
            continue
        # diagnose: which values differ?
        diffs = []
        swap = False
        if isinstance(xv, Fin) and isinstance(exp, Fin) and set(xv.slots) == set(exp.slots):
            expvals = set(exp.table.values())
            for r in sorted(exp.table, key=lambda r: tuple(T.ckey(y) for y in r)):
                # align slot order
                r2 = tuple(r[exp.slots.index(sl_)] for sl_ in xv.slots)
                g = xv.table.get(r2)
                if g != exp.table[r]:
                    diffs.append((r, g, exp.table[r]))
                    if g in expvals:
                        swap = True
            inj_found = len(set(xv.table.values()))
            inj_exp = len(set(exp.table.values()))
            if v == 4 and not swap and inj_found == inj_exp:
                led.info(
                    "C11.metrics.spelling",
                    ck,
                    where,
                    "value names differ in spelling from the specification's: %s" % ["%r vs %r" % (g, e) for _, g, e in diffs[:3]],
                )
                led.ok("C11.metrics", ck, where, "token identifies the effective value (spelling differs from the specification)")
                continue
        led.violation(
            "C11.metrics",
            ck,
            where,
            "the JSON field of %s does not name the effective value: %s"
            % (k, "; ".join("%s=%s -> %r, expected %r" % (",".join(x[2:] for x in exp.slots), r, g, e) for r, g, e in diffs[:3]) or repr(xv)),
        )
    # ---- score fields
    check_json_scores(ctx, led, v, "C11.scores")
    # ---- sort
    for minimal in (False, True):
        a = maps.get((False, minimal))
        b = maps.get((True, minimal))
        if a is None or b is None:
            continue
        oa, sta, _, _ = a
        ob, stb, _, _ = b
        ca, cb = Canon(om.ev, sta), Canon(om.ev, stb)
        ck = "%s.as_json(sort=True, minimal=%s)" % (om.clsname, minimal)
        n += 1
        same_keys = set(oa.entries) == set(ob.entries)
        same_vals = same_keys and all(
            ca(oa.entries[k][0]) == cb(ob.entries[k][0])
            and (
                (isinstance(oa.entries[k][1], Term) and ca(oa.entries[k][1]) == cb(ob.entries[k][1]))
                or oa.entries[k][1] is ob.entries[k][1]
            )
            for k in oa.entries
        )
        led.check(same_vals, "C11.sort.items", ck, where, "sort=True changes the content (keys or values differ from sort=False)")
        led.check(
            list(ob.order) == sorted(ob.order) and ob.ordered,
            "C11.sort.order",
            ck,
            where,
            "sort=True must return an ordered mapping with ascending keys (found %s, ordered=%s)" % (ob.order[:5], ob.ordered),
        )
    # ---- minimal
    groups = {}
    if v in (2, 3):
        groups = {"temporal": spec["groups"]["temporal"], "environmental": spec["groups"]["environmental"]}
    m = maps.get((False, True))
    if m is not None:
        om_, stm, _, _ = m
        cm = Canon(om.ev, stm)
        fullkeys = set(o.entries)
        # base fields and identity never removed
        base_keys = set(["version", "vectorString", "baseScore"] + [keytab.get(k) for k in spec["mandatory"]])
        if v != 2:
            base_keys.add("baseSeverity")
        for k in sorted(x for x in base_keys if x):
            n += 1
            p = cm(om_.entries[k][0]) if k in om_.entries else Const(False)
            led.check(
                isinstance(p, Const) and p.v is True,
                "C11.minimal.base",
                "%s.as_json(minimal=True)[%s]" % (om.clsname, k),
                where,
                "minimal=True can drop the base field %s" % k,
            )
        # a field that minimal=True keeps must carry the value the full output carries
        full = maps.get((False, False))
        if full is not None:
            of_, stf, _, _ = full
            for k in sorted(om_.entries):
                if k not in of_.entries:
                    led.violation("C11.minimal.values", "%s.as_json(minimal=True)[%s]" % (om.clsname, k), where, "minimal=True emits %s, which the full output lacks" % k)
                    continue
                pm = cm(om_.entries[k][0])
                if isinstance(pm, Const) and pm.v is False:
                    continue
                vm, vf = om_.entries[k][1], of_.entries[k][1]
                n += 1
                if vm is vf:
                    same = True
                elif isinstance(vm, Term) and isinstance(vf, Term):
                    sm, sf = stm.copy(), stf.copy()
                    try:
                        if not (isinstance(pm, Const) and pm.v is True):
                            om.ev.assume(sm, pm)
                            om.ev.assume(sf, pm)
                        same = Canon(om.ev, sm)(vm) == Canon(om.ev, sf)(vf)
                    except Exception:
                        same = cm(vm) == Canon(om.ev, stf)(vf)
                else:
                    same = False
                led.check(
                    same,
                    "C11.minimal.values",
                    "%s.as_json(minimal=True)[%s]" % (om.clsname, k),
                    where,
                    "the value of %s under minimal=True differs from its value in the full output: %s"
                    % (k, explain_diff(vm, vf) if isinstance(vm, Term) and isinstance(vf, Term) else "different objects"),
                )
        if v == 4:
            for k in sorted(fullkeys):
                p = cm(om_.entries[k][0]) if k in om_.entries else Const(False)
                led.check(
                    isinstance(p, Const) and p.v is True,
                    "C11.minimal.group",
                    "CVSS4.as_json(minimal=True)[%s]" % k,
                    where,
                    "minimal=True drops %s (v4 has no optional JSON group in this implementation)" % k,
                )
        for gname, metrics in groups.items():
            gkeys = [keytab.get(k) for k in metrics] + [gname + "Score"] + ([gname + "Severity"] if v == 3 else [])
            conds = []
            for k in gkeys:
                if k not in om_.entries:
                    conds.append(Const(False))
                else:
                    conds.append(cm(om_.entries[k][0]))
            n += 1
            led.check(
                all(c == conds[0] for c in conds),
                "C11.minimal.whole",
                "%s.as_json(minimal=True) group %s" % (om.clsname, gname),
                where,
                "minimal=True must keep or drop the %s group as a whole; its fields have different inclusion conditions" % gname,
            )
            # a defined metric of the group forces inclusion
            for k in metrics:
                s = metric_slot(k)
                defined = [x for x in stm.folder().domain(s) if x is not ABSENT and x != nd]
                st3 = stm.copy()
                st3.dom[s] = tuple(defined)
                c3 = Canon(om.ev, st3)
                g = c3(om_.entries[gname + "Score"][0]) if (gname + "Score") in om_.entries else Const(False)
                n += 1
                if isinstance(g, Const) and g.v is True:
                    led.ok("C11.minimal", "%s.as_json(minimal=True) %s defined" % (om.clsname, k), where)
                else:
                    guard_stmt = _guard_stmt(om, f, gname)
                    led.violation(
                        "C11.minimal",
                        "%s.%s.as_json::%s" % (om.modname, om.clsname, guard_stmt[0]),
                        guard_stmt[1],
                        "minimal=True can drop the %s group although %s has a defined value: the inclusion guard also depends on %s"
                        % (gname, k, _residual(g)),
                    )
                    break
    return n


def _residual(g):
    if isinstance(g, (Cmp,)):
        return "the numeric value of a score (%s 0)" % g.op
    if isinstance(g, BoolOp):
        return "; ".join(_residual(a) for a in g.args if not isinstance(a, Fin))[:200] or "other metrics"
    d = deps_of(g)
    return "%s" % sorted(d)[:4]


def _guard_stmt(om, f, gname):
    """The `if` statement of as_json that guards the group's score key (for a stable finding key)."""
    import ast

    target = gname + "Score"
    for n in ast.walk(f.node):
        if isinstance(n, ast.If):
            for x in ast.walk(n):
                if isinstance(x, ast.Constant) and x.value == target:
                    return ("if " + short(n.test), om.module.where(n))
    return ("inclusion guard of " + target, om.module.where(f.node))
