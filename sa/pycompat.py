"""E9 — Python 2.7 / 3.6-3.13 common-subset analysis (syntax census, divergence lints)."""

from __future__ import annotations

import ast
import io
import os
import re
import subprocess
import tokenize

from .srcmodel import AnalysisError, norm_src, short

PYENV = "/root/.pyenv/versions"

# feature -> (first CPython 3 minor that has it, available on 2.7?)
FEATURES = {
    "f-string": ((3, 6), False),
    "walrus": ((3, 8), False),
    "positional-only parameters": ((3, 8), False),
    "keyword-only parameters": ((3, 0), False),
    "annotations": ((3, 0), False),
    "variable annotation": ((3, 6), False),
    "nonlocal": ((3, 0), False),
    "yield from": ((3, 3), False),
    "raise ... from": ((3, 0), False),
    "star-unpacking in call/display": ((3, 5), False),
    "starred assignment target": ((3, 0), False),
    "async/await": ((3, 5), False),
    "match statement": ((3, 10), False),
    "numeric literal with underscores": ((3, 6), False),
    "matrix multiplication operator": ((3, 5), False),
    "zero-argument super()": ((3, 0), False),
    "except*": ((3, 11), False),
    "dict unpacking in display": ((3, 5), False),
    "keyword argument after **": ((3, 5), False),
    "class without explicit object base": ((3, 0), False),
    "non-ASCII source without coding cookie": ((3, 0), False),
    "print() with keyword arguments but no print_function import": ((3, 0), False),
    "parenthesised context managers": ((3, 10), False),
    "type parameter syntax": ((3, 12), False),
    "metaclass keyword": ((3, 0), False),
}

NEW_APIS = {
    # attribute / method name -> first version
    "removeprefix": (3, 9),
    "removesuffix": (3, 9),
    "isascii": (3, 7),
    "casefold": (3, 3),
    "bit_count": (3, 10),
    "move_to_end": (3, 2),
    "fromisoformat": (3, 7),
    "as_integer_ratio": (3, 8),
    "readable": None,
}
NEW_NAMES = {
    "math.prod": (3, 8),
    "math.isqrt": (3, 8),
    "math.dist": (3, 8),
    "math.comb": (3, 8),
    "functools.cache": (3, 9),
    "functools.cached_property": (3, 8),
    "functools.lru_cache": (3, 2),
    "statistics": (3, 4),
    "pathlib": (3, 4),
    "enum": (3, 4),
    "typing": (3, 5),
    "dataclasses": (3, 7),
    "secrets": (3, 6),
    "zoneinfo": (3, 9),
    "tomllib": (3, 11),
    "graphlib": (3, 9),
    "importlib.metadata": (3, 8),
    "contextlib.nullcontext": (3, 7),
    "contextlib.suppress": (3, 4),
    "shutil.which": (3, 3),
    "itertools.accumulate": (3, 2),
    "itertools.pairwise": (3, 10),
    "itertools.batched": (3, 12),
    "collections.ChainMap": (3, 3),
    "decimal.localcontext": (2, 5),
    "subprocess.run": (3, 5),
    "breakpoint": (3, 7),
    "print flush": (3, 3),
}
NEW_KEYWORDS = {
    # callable (by attribute / function name) -> keyword -> first version
    "ArgumentParser": {"allow_abbrev": (3, 5), "exit_on_error": (3, 9)},
    "add_argument": {},
    "split": {"maxsplit": (3, 0), "sep": (3, 0)},
    "rsplit": {"maxsplit": (3, 0), "sep": (3, 0)},
    "print": {"flush": (3, 3)},
    "open": {"encoding": (3, 0), "newline": (3, 0), "errors": (3, 0)},
    "sorted": {},
    "dumps": {},
    "dump": {},
    "round": {"ndigits": (3, 0)},
    "int": {"base": (3, 0)},
    "compile": {},
    "max": {"default": (3, 4)},
    "min": {"default": (3, 4)},
    "sum": {"start": (3, 8)},
    "run": {"capture_output": (3, 7), "text": (3, 7)},
    "zip": {"strict": (3, 10)},
}
PY3_ONLY_BUILTINS = {"breakpoint": (3, 7), "aiter": (3, 10), "anext": (3, 10), "ascii": (3, 0), "exec": (3, 0)}
PY2_ONLY_BUILTINS = ("unicode", "basestring", "xrange", "long", "unichr", "reduce", "cmp", "execfile", "file", "raw_input")


def declared_versions(repo_root):
    """Support matrix from setup.py classifiers and tox.ini."""
    out = {"classifiers": [], "tox": []}
    sp = os.path.join(repo_root, "setup.py")
    if os.path.exists(sp):
        src = open(sp).read()
        for m in re.finditer(r"Programming Language :: Python :: (\d+)\.(\d+)", src):
            out["classifiers"].append((int(m.group(1)), int(m.group(2))))
    tp = os.path.join(repo_root, "tox.ini")
    if os.path.exists(tp):
        src = open(tp).read()
        m = re.search(r"envlist\s*=\s*(.*)", src)
        if m:
            for mm in re.finditer(r"py\{([^}]*)\}|py(\d{2,3})", m.group(1)):
                items = mm.group(1).split(",") if mm.group(1) else [mm.group(2)]
                for it in items:
                    it = it.strip()
                    if it.isdigit():
                        out["tox"].append((int(it[0]), int(it[1:])))
    return out


class Census(ast.NodeVisitor):
    def __init__(self, module):
        self.module = module
        self.found = []  # (feature, node)
        self.has_print_function = False
        self.has_unicode_literals = False
        self.has_division = False
        for st in module.tree.body:
            if isinstance(st, ast.ImportFrom) and st.module == "__future__":
                for al in st.names:
                    if al.name == "print_function":
                        self.has_print_function = True
                    if al.name == "unicode_literals":
                        self.has_unicode_literals = True
                    if al.name == "division":
                        self.has_division = True

    def add(self, feature, node):
        self.found.append((feature, node))

    def visit_JoinedStr(self, node):
        self.add("f-string", node)
        self.generic_visit(node)

    def visit_NamedExpr(self, node):
        self.add("walrus", node)
        self.generic_visit(node)

    def visit_arguments(self, node):
        if node.posonlyargs:
            self.add("positional-only parameters", node)
        if node.kwonlyargs:
            self.add("keyword-only parameters", node)
        for a in node.posonlyargs + node.args + node.kwonlyargs + [x for x in (node.vararg, node.kwarg) if x]:
            if a.annotation is not None:
                self.add("annotations", a)
        self.generic_visit(node)

    def visit_FunctionDef(self, node):
        if node.returns is not None:
            self.add("annotations", node)
        if getattr(node, "type_params", None):
            self.add("type parameter syntax", node)
        self.generic_visit(node)

    def visit_AsyncFunctionDef(self, node):
        self.add("async/await", node)
        self.generic_visit(node)

    def visit_Await(self, node):
        self.add("async/await", node)
        self.generic_visit(node)

    def visit_AsyncFor(self, node):
        self.add("async/await", node)
        self.generic_visit(node)

    def visit_AsyncWith(self, node):
        self.add("async/await", node)
        self.generic_visit(node)

    def visit_AnnAssign(self, node):
        self.add("variable annotation", node)
        self.generic_visit(node)

    def visit_Nonlocal(self, node):
        self.add("nonlocal", node)

    def visit_YieldFrom(self, node):
        self.add("yield from", node)
        self.generic_visit(node)

    def visit_Raise(self, node):
        if node.cause is not None:
            self.add("raise ... from", node)
        self.generic_visit(node)

    def visit_Match(self, node):
        self.add("match statement", node)
        self.generic_visit(node)

    def visit_TryStar(self, node):
        self.add("except*", node)
        self.generic_visit(node)

    def visit_BinOp(self, node):
        if isinstance(node.op, ast.MatMult):
            self.add("matrix multiplication operator", node)
        self.generic_visit(node)

    def visit_Call(self, node):
        stars = [a for a in node.args if isinstance(a, ast.Starred)]
        if len(stars) > 1 or (stars and node.args.index(stars[0]) != len(node.args) - 1):
            self.add("star-unpacking in call/display", node)
        dstars = [k for k in node.keywords if k.arg is None]
        if len(dstars) > 1:
            self.add("star-unpacking in call/display", node)
        if isinstance(node.func, ast.Name) and node.func.id == "super" and not node.args:
            self.add("zero-argument super()", node)
        if isinstance(node.func, ast.Name) and node.func.id == "print":
            if (node.keywords or len(node.args) != 1) and not self.has_print_function:
                self.add("print() with keyword arguments but no print_function import", node)
        self.generic_visit(node)

    def visit_Dict(self, node):
        if any(k is None for k in node.keys):
            self.add("dict unpacking in display", node)
        self.generic_visit(node)

    def visit_List(self, node):
        if isinstance(node.ctx, ast.Load) and any(isinstance(e, ast.Starred) for e in node.elts):
            self.add("star-unpacking in call/display", node)
        if isinstance(node.ctx, ast.Store) and any(isinstance(e, ast.Starred) for e in node.elts):
            self.add("starred assignment target", node)
        self.generic_visit(node)

    visit_Tuple = visit_List

    def visit_Set(self, node):
        if any(isinstance(e, ast.Starred) for e in node.elts):
            self.add("star-unpacking in call/display", node)
        self.generic_visit(node)

    def visit_ClassDef(self, node):
        if not node.bases:
            self.add("class without explicit object base", node)
        if node.keywords:
            self.add("metaclass keyword", node)
        if getattr(node, "type_params", None):
            self.add("type parameter syntax", node)
        self.generic_visit(node)


def token_features(module):
    out = []
    try:
        toks = tokenize.generate_tokens(io.StringIO(module.source).readline)
        for t in toks:
            if t.type == tokenize.NUMBER and "_" in t.string:
                out.append(("numeric literal with underscores", t.start[0]))
    except tokenize.TokenError:
        pass
    try:
        module.source.encode("ascii")
    except UnicodeEncodeError:
        head = "\n".join(module.source.splitlines()[:2])
        if not re.search(r"coding[:=]\s*([-\w.]+)", head):
            out.append(("non-ASCII source without coding cookie", 1))
    return out


def interpreters():
    out = []
    if os.path.isdir(PYENV):
        for name in sorted(os.listdir(PYENV), key=lambda s: [int(x) for x in re.findall(r"\d+", s)]):
            exe = os.path.join(PYENV, name, "bin", "python")
            if os.path.exists(exe):
                out.append((name, exe))
    return out


PARSE_SNIPPET = (
    "import sys, ast\n"
    "bad = []\n"
    "for p in sys.argv[1:]:\n"
    "    try:\n"
    "        f = open(p, 'rb'); src = f.read(); f.close()\n"
    "        ast.parse(src, p)\n"
    "    except SyntaxError as e:\n"
    "        bad.append('%s:%s: %s' % (p, e.lineno, e.msg))\n"
    "print('\\n'.join(bad))\n"
)


def compile_only(exe, paths, timeout=60):
    """Parse the files with the given interpreter's own grammar (no execution of their code)."""
    try:
        p = subprocess.run([exe, "-S", "-c", PARSE_SNIPPET] + list(paths), stdout=subprocess.PIPE, stderr=subprocess.PIPE, timeout=timeout, text=True)
    except Exception as e:  # pragma: no cover
        return None, str(e)
    if p.returncode != 0:
        return None, p.stderr.strip()[-300:]
    return [l for l in p.stdout.splitlines() if l.strip()], None


RE_FUNCS = ("compile", "search", "match", "fullmatch", "findall", "finditer", "sub", "subn", "split")
FLAG_ALIASES = {"I": "IGNORECASE", "A": "ASCII", "U": "UNICODE", "M": "MULTILINE", "S": "DOTALL", "X": "VERBOSE", "L": "LOCALE"}


def regex_calls(ctx):
    """(module, call node, pattern text, flag names) for every re.<function>(constant pattern, ...)."""
    out = []
    for name, m in sorted(ctx.repo.modules.items()):
        for n in ast.walk(m.tree):
            if not (isinstance(n, ast.Call) and isinstance(n.func, ast.Attribute) and n.func.attr in RE_FUNCS):
                continue
            if ctx.ce.ext_name(m, n.func) != "re." + n.func.attr:
                continue
            if not n.args:
                continue
            try:
                pat = ctx.ce.eval(m, n.args[0], "C20.regex")
            except AnalysisError:
                pat = None
            flags = set()
            pos = {"compile": 1, "search": 2, "match": 2, "fullmatch": 2, "findall": 2, "finditer": 2, "sub": 4, "subn": 4, "split": 3}[n.func.attr]
            fexprs = list(n.args[pos : pos + 1]) + [kw.value for kw in n.keywords if kw.arg == "flags"]
            for fx in fexprs:
                for part in ast.walk(fx):
                    if isinstance(part, ast.Attribute):
                        flags.add(FLAG_ALIASES.get(part.attr, part.attr))
            out.append((m, n, pat, flags))
    return out


def unicode_sensitive(pattern, flags):
    """Constructs of a str pattern whose meaning differs between Python 2.7 (ASCII semantics unless
    re.UNICODE) and Python 3 (Unicode semantics unless re.ASCII): returns a list of reasons.
    Only the case-folding difference is decided: with IGNORECASE a letter i, s or k also matches
    U+0130/U+0131, U+017F, U+212A on Python 3 only."""
    import re._parser as sp  # noqa
    import re._constants as sc  # noqa

    reasons = []
    try:
        tree = sp.parse(pattern)
    except Exception:
        return reasons
    inline = tree.state.flags if hasattr(tree, "state") else 0
    import re as _re

    icase = "IGNORECASE" in flags or bool(inline & _re.IGNORECASE)
    uni = "UNICODE" in flags  # explicit: Python 2.7 then folds like Python 3
    asc = "ASCII" in flags or bool(inline & _re.ASCII)
    if not icase or uni:
        return reasons
    if asc:
        return ["re.ASCII does not exist on Python 2.7"]
    letters = set()

    def walk(seq):
        for op, av in seq:
            if op is sc.LITERAL or op is sc.NOT_LITERAL:
                letters.add(chr(av).lower())
            elif op is sc.IN:
                for o2, a2 in av:
                    if o2 is sc.LITERAL:
                        letters.add(chr(a2).lower())
                    elif o2 is sc.RANGE:
                        lo, hi = a2
                        for c in "isk":
                            if lo <= ord(c) <= hi or lo <= ord(c.upper()) <= hi:
                                letters.add(c)
            elif op in (sc.MAX_REPEAT, sc.MIN_REPEAT, getattr(sc, "POSSESSIVE_REPEAT", None)):
                walk(av[2])
            elif op is sc.SUBPATTERN:
                walk(av[3])
            elif op is sc.BRANCH:
                for alt in av[1]:
                    walk(alt)
            elif op in (sc.ASSERT, sc.ASSERT_NOT):
                walk(av[1])
            elif op is getattr(sc, "ATOMIC_GROUP", None):
                walk(av)

    walk(tree)
    hit = sorted(letters & set("isk"))
    if hit:
        reasons.append(
            "IGNORECASE on a text pattern containing %s: Python 3 also matches %s, Python 2.7 (no re.UNICODE) does not"
            % (", ".join(hit), ", ".join({"i": "U+0130/U+0131", "s": "U+017F", "k": "U+212A"}[c] for c in hit))
        )
    return reasons


# ---------------------------------------------------------------------------------------------
# lazy iterators: map/filter/zip return lists on Python 2.7 and one-shot iterators on Python 3;
# generator expressions, iter(), reversed(), enumerate() are one-shot on both

LAZY_BOTH = {"iter", "reversed", "enumerate"}
LAZY_PY3 = {"map", "filter", "zip"}
CONSUMERS = {
    "list", "tuple", "set", "frozenset", "dict", "sorted", "sum", "min", "max", "any", "all", "OrderedDict", "next", "len_hint",
    "enumerate", "zip", "map", "filter", "reversed", "iter", "reduce", "D", "str",
}
CONSUMER_METHODS = {"join", "extend", "update", "fromkeys", "union", "intersection", "difference", "issubset", "issuperset"}


def lazy_kind(n):
    if isinstance(n, ast.GeneratorExp):
        return "generator expression"
    if isinstance(n, ast.Call) and isinstance(n.func, ast.Name) and n.func.id in LAZY_BOTH | LAZY_PY3:
        return "%s()" % n.func.id
    return None


def stored_lazy(module, root):
    """Lazy iterator objects created under `root` that are not consumed on the spot (argument of a
    consuming call, iterable of a loop / comprehension, unpacked) but become part of the value:
    [(node, kind, how)] with how in 'stored' (the value itself / an element of a container /
    an argument of a non-consuming call), 'indexed', 'len'."""
    out = []
    for n in ast.walk(root):
        kind = lazy_kind(n)
        if kind is None:
            continue
        p = module.parent(n)
        if n is root:
            out.append((n, kind, "stored"))
            continue
        if isinstance(p, ast.Call):
            if n in p.args or any(kw.value is n for kw in p.keywords):
                f = p.func
                if isinstance(f, ast.Name) and f.id in CONSUMERS:
                    continue
                if isinstance(f, ast.Attribute) and f.attr in CONSUMER_METHODS:
                    continue
                if isinstance(f, ast.Name) and f.id == "len":
                    out.append((n, kind, "len"))
                    continue
                out.append((n, kind, "stored"))
                continue
        if isinstance(p, ast.comprehension) and p.iter is n:
            continue
        if isinstance(p, (ast.For, ast.AsyncFor)) and p.iter is n:
            continue
        if isinstance(p, ast.Starred):
            continue
        if isinstance(p, ast.Subscript) and p.value is n:
            out.append((n, kind, "indexed"))
            continue
        if isinstance(p, ast.Compare) and any(isinstance(op, (ast.In, ast.NotIn)) for op in p.ops) and n in p.comparators:
            continue  # membership test consumes it on the spot
        if isinstance(p, ast.Assign) and isinstance(p.targets[0], (ast.Tuple, ast.List)) and p.value is n:
            continue  # unpacking
        out.append((n, kind, "stored"))
    return out
