"""Evaluation of a value-graph term at one full assignment of its symbolic inputs.

Used by the semantic analyses that enumerate a finite representative input set (C12, C13, C17):
the interpreter has produced terms over input slots; here a term is evaluated for one row.  Rows a
path excluded are absent from its tables (Dead): Kleene connectives make them irrelevant whenever
another operand decides.
"""

from __future__ import annotations

from .interp import Dead, truth_const
from .srcmodel import AnalysisError
from fractions import Fraction

from .consteval import NAN, Num
from .terms import App, BoolOp, Cmp, Const, Fin, P, Term


def value_at(pins, t):
    """pins: slot -> value.  Raises Dead when the term is undefined on this row, AnalysisError when
    it is not a function of the pinned slots."""
    if isinstance(t, Const):
        return t.v
    if isinstance(t, Fin):
        try:
            key = tuple(pins[s] for s in t.slots)
        except KeyError as e:
            raise AnalysisError("E6.point", "slot %s is not pinned" % e)
        if key not in t.table:
            raise Dead()
        return t.table[key]
    if isinstance(t, BoolOp):
        if t.op == "not":
            return not truth_const(value_at(pins, t.args[0]))
        unknown = False
        for a in t.args:
            try:
                x = truth_const(value_at(pins, a))
            except Dead:
                unknown = True
                continue
            if t.op == "and" and not x:
                return False
            if t.op == "or" and x:
                return True
        if unknown:
            raise Dead()
        return t.op == "and"
    if isinstance(t, App) and t.op == "ite":
        c, a, b = t.args
        return value_at(pins, a if truth_const(value_at(pins, c)) else b)
    if isinstance(t, Cmp):
        q = poly_at(pins, t.poly)
        if q is NAN:
            return t.op == "!="  # every ordered comparison with nan is false, != is true
        return {"==": q == 0, "!=": q != 0, "<": q < 0, "<=": q <= 0, ">": q > 0, ">=": q >= 0}[t.op]
    if isinstance(t, P):
        q = poly_at(pins, t)
        return q
    tp = text_predicate(t)
    if tp is not None and ("text_has:" + tp) in pins:
        return pins["text_has:" + tp]
    if isinstance(t, App) and t.op == "truth" and len(t.args) == 1:
        return truth_const(value_at(pins, t.args[0]))
    raise AnalysisError("E6.point", "value %r is not decided by the inputs" % (t,))


def text_predicate(t):
    """'s' for the term `Const(s) in Opaque(text)` (a substring test on the analysed function's text
    argument, whose truth the caller supplies as the pin text_has:s), else None."""
    from .terms import Opaque

    if isinstance(t, App) and t.op == "in" and len(t.args) == 2:
        a, b = t.args
        if isinstance(a, Const) and isinstance(a.v, str) and isinstance(b, Opaque) and b.tag == "text":
            return a.v
    return None


def text_predicates_in(roots):
    """All substring tests on the text argument that occur in the given terms."""
    from .terms import Opaque

    out = []
    seen = set()

    def rec(x):
        if id(x) in seen or not isinstance(x, Term):
            return
        seen.add(id(x))
        tp = text_predicate(x)
        if tp is not None and tp not in out:
            out.append(tp)
        if isinstance(x, (App, BoolOp)):
            for a in x.args:
                rec(a)
        elif isinstance(x, Cmp):
            rec(x.poly)
        elif isinstance(x, P):
            for a in x.atoms():
                rec(a)

    for r in roots:
        rec(r)
    return out


def poly_at(pins, p):
    total = Fraction(0)
    for mono, coef in p.terms.items():
        x = Fraction(coef)
        for atom, power in mono:
            v = value_at(pins, atom)
            if v is NAN:
                return NAN
            if isinstance(v, Num):
                v = v.q
            if isinstance(v, bool) or not isinstance(v, (int, Fraction)):
                raise AnalysisError("E6.point", "non-numeric value %r in an arithmetic term" % (v,))
            x *= Fraction(v) ** power
        total += x
    return total


def holds(pins, conds):
    for c in conds:
        if not isinstance(c, Term):
            continue
        try:
            v = value_at(pins, c)
        except Dead:
            return False
        if not truth_const(v):
            return False
    return True


def first_event(pins, events, kinds=("hazard", "raise", "may_raise", "none_arith")):
    """First event of the given kinds whose path (and own condition) holds for this row."""
    for e in events:
        if e.kind not in kinds or e.data.get("handled"):
            continue
        conds = list(e.pc)
        c = e.data.get("cond")
        if isinstance(c, Term):
            conds.append(c)
        dom = e.data.get("dom")
        if dom is not None:
            if any(s_ in pins and pins[s_] not in allowed for s_, allowed in dom.items()):
                continue
            if any(not f.table.get(tuple(pins.get(x) for x in f.slots), True) for f in e.data.get("constraints", ())):
                continue
        try:
            if holds(pins, conds):
                return e
        except AnalysisError:
            return e
    return None
