"""Formula / leaf / fill / selector rules for the v2 and v3 scoring code (C01, C03, and reused
by C05, C06, C09)."""

from __future__ import annotations

import ast

from . import specs
from .canon import Canon, SpecBuilder, explain_diff
from .interp import Ref, TupleVal
from .interp_expr import deps_of
from .objmodel import ObjModel, metric_slot
from .srcmodel import AnalysisError, short
from .terms import ABSENT, App, Const, Fin, Opaque, P, Term

SCORE_ATTRS = ("base_score", "temporal_score", "environmental_score")


def get_model(ctx, v, map_order="table"):
    key = ("objmodel", v) if map_order == "table" else ("objmodel_" + map_order, v)
    if key not in ctx.memo:
        om = ObjModel(ctx, v, map_order=map_order)
        if not om.alive:
            raise AnalysisError("E5.model", "every path through CVSS%d.__init__ raises" % v)
        ctx.memo[key] = om
    return ctx.memo[key]


def score_writer(om, attr):
    """Function + statement text that last wrote self.<attr> during __init__ (for finding keys)."""
    last = None
    for e in om.events("attr_write", init_only=True):
        if e.data.get("attr") == attr:
            last = e
    if last is None:
        return ("?", "?", "?")
    stmt = last.node
    mod = last.module
    while not isinstance(stmt, ast.stmt):
        stmt = mod.parent(stmt)
    fn = last.func.qualname if last.func is not None else "?"
    return (fn, short(stmt), mod.where(stmt))


def v3_cases(om):
    minors = om.space.dom["minor"]
    for minor in minors:
        for S in [x for x in om.space.dom["m:S"] if x is not ABSENT]:
            for MS in om.space.dom["m:MS"]:
                st = om.st.copy()
                st.dom["minor"] = (minor,)
                st.dom["m:S"] = (S,)
                st.dom["m:MS"] = (MS,)
                yield (minor, S, MS), st


def check_v3_formula(ctx, led, rule="C01.formula", attrs=SCORE_ATTRS):
    om = get_model(ctx, 3)
    spec = ctx.vspec(3)
    nd = spec["nd"]
    n = 0
    bad = {}
    for (minor, S, MS), st in v3_cases(om):
        if S not in ("U", "C") or MS not in ("U", "C", nd, ABSENT) or minor not in (0, 1):
            # outside the specification's domain: covered by the grammar check (C04.tables)
            continue
        cn = Canon(om.ev, st)
        sb = SpecBuilder(om.ev, st)
        mse = S if MS in (ABSENT, nd) else MS
        sp = specs.v3_terms(sb, spec, minor, S, mse)
        for a in attrs:
            n += 1
            f = cn(om.attr(a))
            e = cn(sp[a])
            case = "3.%s S:%s MS:%s" % (minor, S, "absent" if MS is ABSENT else MS)
            if f == e:
                led.ok(rule, "CVSS3.%s [%s]" % (a, case), "cvss/cvss3.py", "value graph equals the specification equation")
            else:
                bad.setdefault(a, []).append((case, explain_diff(f, e)))
    for a, lst in bad.items():
        fn, stmt, where = score_writer(om, a)
        cases = [c for c, _ in lst]
        led.violation(
            rule,
            "%s::%s" % (fn, stmt),
            where,
            "the value graph flowing into CVSS3.%s differs from the FIRST v3 equation in %d case(s) (%s): %s"
            % (a, len(lst), ", ".join(cases[:4]) + ("..." if len(cases) > 4 else ""), "; ".join(lst[0][1][:3])),
            expected="specification equation (spec/v3.json + sa/specs.py)",
            found="; ".join(lst[0][1][:6]),
        )
    led.count("formula_comparisons", n)
    return n


def check_v2_formula(ctx, led, rule="C03.formula"):
    om = get_model(ctx, 2)
    spec = ctx.vspec(2)
    st = om.st.copy()
    cn = Canon(om.ev, st)
    sb = SpecBuilder(om.ev, st)
    sp = specs.v2_terms(sb, spec)
    n = 0
    for a in SCORE_ATTRS:
        n += 1
        f = cn(om.attr(a))
        e = cn(sp[a])
        if f == e:
            led.ok(rule, "CVSS2.%s" % a, "cvss/cvss2.py", "value graph equals the guide's equation")
            continue
        fn, stmt, where = score_writer(om, a)
        # separate the None-ness rule from the numeric formula for a sharper message
        what = explain_diff(f, e)
        led.violation(
            rule,
            "%s::%s" % (fn, stmt),
            where,
            "the value graph flowing into CVSS2.%s differs from the CVSS v2 guide equation: %s" % (a, "; ".join(what[:3])),
            expected="guide equation (spec/v2.json + sa/specs.py)",
            found="; ".join(what[:6]),
        )
    led.count("formula_comparisons", n)
    return n


def check_leaves(ctx, led, v, rule):
    """get_value(K) for every weighted metric equals the specification's weight leaf."""
    om = get_model(ctx, v)
    spec = ctx.vspec(v)
    nd = spec["nd"]
    W = spec["weights"]
    gv = ctx.repo.method(om.modname, om.clsname, "get_value")
    # literal call sites of get_value in the class (anti-vacuity + the set of keys really used)
    sites = []
    for fn in om.cls.methods.values():
        for n in ast.walk(fn.node):
            if isinstance(n, ast.Call) and isinstance(n.func, ast.Attribute) and n.func.attr == "get_value":
                if n.args and isinstance(n.args[0], ast.Constant):
                    sites.append((fn, n, n.args[0].value))
                else:
                    sites.append((fn, n, None))
    keys = set(k for _, _, k in sites if k is not None)
    if any(k is None for _, _, k in sites):
        # a call with a computed key (e.g. a loop over a literal tuple): check every weighted metric
        keys |= set(W) | set(m for m, b in spec.get("modified_of", {}).items() if b in W)
    keys = sorted(keys)
    led.count("get_value_call_sites", len(sites))
    n = 0
    if v == 2:
        cases = [("", om.st.copy())]
    else:
        cases = [("3.%s S:%s MS:%s" % (c[0], c[1], "absent" if c[2] is ABSENT else c[2]), st) for c, st in v3_cases(om)]
    for k in keys:
        badcases = []
        for case, st in cases:
            cn = Canon(om.ev, st)
            sb = SpecBuilder(om.ev, st)
            try:
                val, st2, evs = om.call("get_value", [Const(k)], st=st)
            except Exception as e:  # Dead / AnalysisError
                from .interp import Dead

                if isinstance(e, Dead):
                    badcases.append((case, "get_value(%r) always raises" % k))
                    continue
                raise
            f = cn(om.ev.to_poly(st, val, None) if not isinstance(val, P) else val)
            if v == 2:
                table = W.get(k)
                exp = None if table is None else sb.leaf([metric_slot(k)], lambda x: table[nd if x is ABSENT else x])
            else:
                exp = _v3_leaf(sb, spec, st, k)
            if exp is None:
                badcases.append((case, "metric %s has no weight in the specification" % k))
                continue
            e = cn(exp.t)
            n += 1
            if f != e:
                badcases.append((case, "; ".join(explain_diff(f, e)[:2])))
        if badcases:
            led.violation(
                rule,
                "%s.get_value(%r)" % (om.clsname, k),
                om.module.where(gv.node),
                "weight of metric %s differs from the specification in %d case(s), e.g. [%s] %s"
                % (k, len(badcases), badcases[0][0], badcases[0][1]),
            )
        else:
            led.ok(rule, "%s.get_value(%r)" % (om.clsname, k), om.module.where(gv.node), "%d case(s)" % len(cases))
    return len(sites), keys


def _v3_leaf(sb, spec, st, k):
    W = spec["weights"]
    nd = spec["nd"]
    modified_of = spec["modified_of"]
    S = st.dom["m:S"][0]
    MS = st.dom["m:MS"][0]
    mse = S if MS in (ABSENT, nd) else MS
    if k in W:
        table = W[k]
        if k == "PR" and S == "C":
            table = spec["pr_changed"]
        return sb.leaf([metric_slot(k)], lambda x: table[nd if x is ABSENT else x])
    if k in modified_of and modified_of[k] in W:
        b = modified_of[k]
        table = W[b]
        if k == "MPR" and mse == "C":
            table = spec["pr_changed"]

        def f(vb, vm):
            return table[vb if vm in (ABSENT, nd) else vm]

        slots = sorted([metric_slot(b), metric_slot(k)])
        if slots[0] == metric_slot(b):
            return sb.leaf(slots, f)
        return sb.leaf(slots, lambda vm, vb: f(vb, vm))
    return None


def check_v3_fill(ctx, led, rule="C01.fill"):
    """State after construction: modified metrics hold their effective value; other metrics are
    untouched; original_metrics is a distinct object holding the input."""
    om = get_model(ctx, 3)
    return _check_fill(ctx, led, om, 3, rule)


def _check_fill(ctx, led, om, v, rule):
    spec = ctx.vspec(v)
    nd = spec["nd"]
    modified_of = spec["modified_of"]
    inst = om.st.heap[om.self_ref.id]
    mref = inst.attrs.get("metrics")
    oref = inst.attrs.get("original_metrics")
    where = om.module.where(ctx.repo.method(om.modname, om.clsname, "add_missing_optional").node)
    if not (isinstance(mref, Ref) and isinstance(oref, Ref)):
        raise AnalysisError(rule, "metrics/original_metrics are not dict objects after construction")
    led.check(
        mref.id != oref.id,
        rule + ".copy",
        "%s.add_missing_optional::original_metrics" % om.clsname,
        where,
        "original_metrics aliases metrics: filling the modified metrics also changes the record of what was given",
    )
    m = om.st.heap[mref.id]
    o = om.st.heap[oref.id]
    fo = om.st.folder()
    cn = Canon(om.ev, om.st)
    n = 0
    for k in om.accepted:
        s = metric_slot(k)
        dom = fo.domain(s)
        # expected original: present iff given, raw value
        exp_pres = fo.simplify(Fin((s,), dict(((x,), x is not ABSENT) for x in dom)))
        exp_val = fo.simplify(Fin((s,), dict(((x,), x) for x in dom if x is not ABSENT)))
        po, vo = o.entries.get(k, (Const(False), None))
        okk = cn(po) == cn(exp_pres) and (vo is None or _eq_on(om, vo, exp_val, s))
        led.check(
            okk,
            rule + ".original",
            "%s.original_metrics[%s]" % (om.clsname, k),
            where,
            "original_metrics[%s] is not the value given in the input (present=%r value=%r)" % (k, po, vo),
        )
        n += 1
        pm, vm = m.entries.get(k, (Const(False), None))
        if k in modified_of:
            b = modified_of[k]
            sb_ = metric_slot(b)
            slots = tuple(sorted([s, sb_]))
            sl, rows = fo.rows(slots)
            tab = {}
            for r in rows:
                vb, vmk = r[sl.index(sb_)], r[sl.index(s)]
                tab[r] = vb if vmk in (ABSENT, nd) else vmk
            exp = fo.simplify(Fin(sl, tab))
            good = cn(pm) == Const(True) and vm is not None and cn(vm) == exp
            led.check(
                good,
                rule,
                "%s.metrics[%s] after fill" % (om.clsname, k),
                where,
                "after construction metrics[%s] must be the effective value (its own value if defined, else the value "
                "of %s); found present=%r value=%s" % (k, b, cn(pm), vm.describe(6) if isinstance(vm, Fin) else vm),
            )
        else:
            yield_default = None
            if v == 4:
                yield_default = nd
            if yield_default is None:
                good = cn(pm) == cn(exp_pres) and (vm is None or _eq_on(om, vm, exp_val, s))
                msg = "metrics[%s] must stay as given in the input" % k
            else:
                # v4 fills absent optional metrics with X
                if ABSENT in dom:
                    expv = fo.simplify(Fin((s,), dict(((x,), nd if x is ABSENT else x) for x in dom)))
                    good = cn(pm) == Const(True) and vm is not None and cn(vm) == expv
                    msg = "after construction metrics[%s] must be the given value, or %s when absent" % (k, nd)
                else:
                    good = cn(pm) == Const(True) and _eq_on(om, vm, exp_val, s)
                    msg = "metrics[%s] must stay as given in the input" % k
            led.check(
                good,
                rule + ".untouched",
                "%s.metrics[%s] after fill" % (om.clsname, k),
                where,
                msg + " (found present=%r value=%s)" % (cn(pm), vm.describe(6) if isinstance(vm, Fin) else vm),
            )
        n += 1
    extra = [k for k in m.entries if k not in om.accepted]
    led.check(
        not extra,
        rule + ".keys",
        "%s.metrics extra keys" % om.clsname,
        where,
        "construction stores keys that are not metrics: %s" % extra,
    )
    return n


def _eq_on(om, val, exp, slot):
    """val equals exp on the rows where the metric is present."""
    st = om.st.copy()
    st.dom[slot] = tuple(x for x in st.folder().domain(slot) if x is not ABSENT)
    if not st.dom[slot]:
        return True
    cn = Canon(om.ev, st)
    return cn(val) == cn(exp)


def check_scores_out(ctx, led, v, rule):
    """scores() returns float(attribute) per slot, in (base, temporal, environmental) order."""
    om = get_model(ctx, v)
    val, st, evs = om.call("scores")
    cn = Canon(om.ev, st)
    f = ctx.repo.method(om.modname, om.clsname, "scores")
    where = om.module.where(f.node)
    items = None
    if isinstance(val, TupleVal):
        items = list(val.items)
    elif isinstance(val, Ref) and st.heap[val.id].kind == "list":
        lo = st.heap[val.id]
        if all(isinstance(g, Const) and g.v for g, _ in lo.items):
            items = [x for _, x in lo.items]
    want = SCORE_ATTRS if v in (2, 3) else ("base_score",)
    if items is None or len(items) != len(want):
        led.violation(rule, "%s.scores::return" % om.clsname, where, "scores() does not return a %d-tuple: %r" % (len(want), val))
        return
    for i, a in enumerate(want):
        attr = om.attr(a)
        exp = float_or_none(om, st, attr) if v != 4 else attr
        # None stays None (v2): conv_float distributes over the ITE
        good = cn(items[i]) == cn(exp)
        led.check(
            good,
            rule,
            "%s.scores()[%d]" % (om.clsname, i),
            where,
            "scores()[%d] is not float(self.%s): found %s" % (i, a, _brief(cn(items[i]))),
        )
    writes = [e for e in evs if e.kind in ("attr_write", "map_store", "map_mutation")]
    led.check(not writes, rule + ".pure", "%s.scores::writes" % om.clsname, where, "scores() writes object state: %s" % writes[:2])


def float_or_none(om, st, x):
    """float(x), with None mapped to None (the v2 undefined score)."""
    if isinstance(x, App) and x.op == "ite":
        return om.ev.mk_ite(st, x.args[0], float_or_none(om, st, x.args[1]), float_or_none(om, st, x.args[2]))
    if isinstance(x, Const) and x.v is None:
        return x
    return om.ev.conv_float(st, x, None, None)


def _brief(t, n=160):
    s = repr(t)
    return s if len(s) <= n else s[:n] + "..."


def check_deps(ctx, led, v, rule, attrs=SCORE_ATTRS):
    om = get_model(ctx, v)
    allowed_prefix = ("m:", "minor", "eff:", "mv:", "d1", "d2", "d3", "d4", "d5", "d6")
    for a in attrs:
        d = deps_of(om.attr(a))
        extra = sorted(x for x in d if not x.startswith(allowed_prefix))
        fn, stmt, where = score_writer(om, a)
        led.check(
            not extra,
            rule,
            "%s.%s deps" % (om.clsname, a),
            where,
            "self.%s depends on something other than the parsed metric values: %s" % (a, extra),
        )
