"""Accessor rules (C18 and reused by C05/C07/C09/C10/C11/C12/C15): purity, totality, freshness."""

from __future__ import annotations

import ast

from .ctx import VERSIONS
from .effects import Effects
from .interp import Dead, Ref, TupleVal
from .rules_score import get_model
from .srcmodel import AnalysisError, short
from .terms import Const, Term

ACCESSORS = {
    2: ["scores", "severities", "clean_vector", "rh_vector", "temporal_vector", "environmental_vector", "as_json", "__eq__", "__hash__"],
    3: ["scores", "severities", "clean_vector", "rh_vector", "temporal_vector", "environmental_vector", "as_json", "__eq__", "__hash__"],
    4: ["scores", "severities", "clean_vector", "rh_vector", "as_json", "__eq__", "__hash__"],
}


def get_effects(ctx):
    if "effects" not in ctx.memo:
        ctx.memo["effects"] = Effects(ctx.repo, ctx.ce)
    return ctx.memo["effects"]


def accessor_calls(om, v):
    """(label, method, args, kwargs) for every way an accessor is exercised abstractly."""
    T_, F_ = Const(True), Const(False)
    out = []
    for a in ACCESSORS[v]:
        if a == "as_json":
            for s in (F_, T_):
                for m in (F_, T_):
                    out.append(("as_json(sort=%s, minimal=%s)" % (s.v, m.v), a, [], {"sort": s, "minimal": m}))
        elif a == "clean_vector" and v in (3, 4):
            out.append(("clean_vector()", a, [], {}))
            out.append(("clean_vector(output_prefix=False)", a, [], {"output_prefix": F_}))
        elif a == "__eq__":
            out.append(("__eq__(self)", a, ["SELF"], {}))
            out.append(("__eq__(None)", a, [Const(None)], {}))
            out.append(("__eq__('text')", a, [Const("text")], {}))
        else:
            out.append((a + "()", a, [], {}))
    return out


def self_held_ids(om, st):
    ids = set()
    work = [om.self_ref]
    while work:
        r = work.pop()
        if r.id in ids:
            continue
        ids.add(r.id)
        o = st.heap.get(r.id)
        if o is None:
            continue
        vals = []
        if o.kind == "inst":
            vals = list(o.attrs.values())
        elif o.kind == "map":
            vals = [v for _, v in o.entries.values()]
        elif o.kind in ("list", "set"):
            vals = [v for _, v in o.items]
        for v in vals:
            if isinstance(v, Ref):
                work.append(v)
            elif isinstance(v, TupleVal):
                work.extend(x for x in v.items if isinstance(x, Ref))
    return ids


def run_accessor(om, label, meth, args, kwargs):
    """Evaluate one accessor call on a copy of the constructed state."""
    args = [om.self_ref if a == "SELF" else a for a in args]
    if meth not in om.cls.methods:
        raise AnalysisError("C18.anchor", "%s.%s vanished" % (om.clsname, meth), om.cls.node, om.module)
    try:
        val, st, evs = om.call(meth, args, kwargs)
        return val, st, evs, True
    except Dead:
        return None, None, om.ev.events[-20:], False


def canon_value(om, st, val, depth=0):
    """Structural, canonical rendering of an accessor result in state st (for comparing the result
    of the same call in two states)."""
    from .canon import Canon

    if depth > 4:
        return "..."
    if isinstance(val, Ref):
        o = st.heap.get(val.id)
        if o is None:
            return "dangling"
        if o.kind == "map":
            cn = Canon(om.ev, st)
            return ("map", bool(o.ordered), tuple((repr(k), cn(p).sortkey() if isinstance(p, Term) else repr(p), canon_value(om, st, x, depth + 1)) for k in o.order for p, x in [o.entries[k]]))
        if o.kind in ("list", "set"):
            cn = Canon(om.ev, st)
            return (o.kind, tuple((cn(g).sortkey() if isinstance(g, Term) else repr(g), canon_value(om, st, x, depth + 1)) for g, x in o.items))
        return ("obj", o.kind)
    if isinstance(val, TupleVal):
        return ("tuple", tuple(canon_value(om, st, x, depth + 1) for x in val.items))
    if isinstance(val, Term):
        from .canon import Canon

        try:
            return Canon(om.ev, st)(val).sortkey()
        except AnalysisError:
            return val.sortkey()
    return repr(val)


def observable_after(ctx, om, v, st_after, only=None):
    """Re-runs every accessor on the state left behind by an accessor that wrote to the object and
    compares each result with the result on the freshly constructed state.  Returns the list of
    (label, what) for the calls whose result changed (or that now raise)."""
    key = ("accessor_baseline", v)
    base = ctx.memo.setdefault(key, {})
    diffs = []
    for label, meth, args, kwargs in accessor_calls(om, v):
        if meth not in om.cls.methods:
            continue
        if label not in base:
            val0, st0, _, alive0 = run_accessor(om, label, meth, args, kwargs)
            base[label] = canon_value(om, st0, val0) if alive0 else "raises"
        a2 = [om.self_ref if a == "SELF" else a for a in args]
        n0 = len(om.ev.events)
        try:
            val1, st1, _ = om.call(meth, a2, kwargs, st=st_after)
            got = canon_value(om, st1, val1)
        except Dead:
            got = "raises"
        except AnalysisError as e:
            got = "not analysable: %s" % e
        del om.ev.events[n0:]
        if got != base[label]:
            diffs.append((label, "raises" if got == "raises" else "returns a different result"))
    return diffs


def check_accessors(ctx, led, v, rules=("total", "pure", "fresh"), prefix="C18", only=None):
    om = get_model(ctx, v)
    n_calls = 0
    n_sites = 0
    for label, meth, args, kwargs in accessor_calls(om, v):
        if only is not None and meth not in only:
            continue
        n_calls += 1
        f = om.cls.methods.get(meth)
        if f is None:
            raise AnalysisError(prefix + ".anchor", "%s.%s vanished" % (om.clsname, meth), om.cls.node, om.module)
        where = om.module.where(f.node)
        n0 = len(om.ev.events)
        val, st, evs, alive = run_accessor(om, label, meth, args, kwargs)
        evs = om.ev.events[n0:]
        ck0 = "%s.%s" % (om.clsname, label)
        if "total" in rules:
            bad = False
            for e in evs:
                if e.kind in ("hazard", "none_arith", "may_raise", "raise"):
                    bad = True
                    stmt = e.node
                    mod = e.module
                    while stmt is not None and not isinstance(stmt, ast.stmt) and mod.parent(stmt) is not None:
                        stmt = mod.parent(stmt)
                    fn = e.func.qualname if e.func else "?"
                    what = {
                        "hazard": "%s: %s" % (e.data.get("exc"), e.data.get("what")),
                        "none_arith": "TypeError: None used in arithmetic",
                        "may_raise": "%s may be raised" % e.data.get("exc"),
                        "raise": "explicit raise of %s" % e.data.get("exc"),
                    }[e.kind]
                    led.violation(
                        prefix + ".total",
                        "%s::%s" % (fn, short(stmt) if stmt is not None else "?"),
                        e.where(),
                        "%s can raise for an accepted vector: %s" % (label, what),
                    )
            if not alive and not bad:
                led.violation(prefix + ".total", ck0, where, "%s raises on every path" % label)
            if not bad and alive:
                led.ok(prefix + ".total", ck0, where, "no reachable raise or undischarged implicit-exception site")
            # instance count: subscripts and calls inside the accessor
            n_sites += len([n for n in ast.walk(f.node) if isinstance(n, ast.Subscript)])
        if not alive:
            continue
        held = self_held_ids(om, st)
        if "pure" in rules:
            writes = []
            for e in evs:
                if e.kind == "attr_write":
                    writes.append((e, "assigns self.%s" % e.data.get("attr")))
                elif e.kind == "map_store" and e.data.get("map") in held:
                    writes.append((e, "stores into a dict held by the object"))
                elif e.kind == "map_mutation" and (e.data.get("map") is None or e.data.get("map") in held):
                    writes.append((e, "mutates a dict held by the object (%s)" % e.data.get("what")))
                elif e.kind == "iterator_consumed" and e.data.get("list") in held:
                    writes.append((e, "consumes an iterator stored on the object (map/filter/zip result): the next call sees it empty"))
                elif e.kind == "global_write":
                    writes.append((e, "writes module-level state (%s)" % e.data.get("what")))
            diffs = None
            if writes:
                # a write is harmful only if some later accessor call can tell: re-run every
                # accessor on the state this call leaves behind and compare with the fresh state
                if any(e.kind == "global_write" for e, _ in writes):
                    diffs = [("(module state)", "is not modelled after a module-level write")]
                else:
                    diffs = observable_after(ctx, om, v, st)
            for e, what in writes:
                if not diffs:
                    break
                stmt = e.node
                mod = e.module
                while not isinstance(stmt, ast.stmt) and mod.parent(stmt) is not None:
                    stmt = mod.parent(stmt)
                fn = e.func.qualname if e.func else "?"
                led.violation(
                    prefix + ".writes",
                    "%s::%s" % (fn, short(stmt)),
                    e.where(),
                    "accessor %s %s: afterwards %s" % (label, what, "; ".join("%s %s" % d for d in diffs[:3])),
                )
            if writes and not diffs:
                led.ok(prefix + ".writes", ck0, where, "%d write(s) to the object, not observable: every accessor returns the same result afterwards" % len(writes))
            if not writes:
                led.ok(prefix + ".writes", ck0, where, "abstract interpretation met no write to object or module state")
        if "fresh" in rules:
            bad = None
            if isinstance(val, Ref):
                if val.id in held:
                    bad = "returns an object that the instance keeps a reference to"
                else:
                    o = st.heap[val.id]
                    inner = []
                    if o.kind == "map":
                        inner = [x for _, x in o.entries.values()]
                    elif o.kind in ("list", "set"):
                        inner = [x for _, x in o.items]
                    for x in inner:
                        if isinstance(x, Ref):
                            bad = "returned container holds a mutable object" + (" shared with the instance" if x.id in held else "")
                        if isinstance(x, Const) and isinstance(x.v, (dict, list)):
                            bad = "returned container holds a module-level table by reference"
            elif isinstance(val, Const) and isinstance(val.v, (dict, list)):
                bad = "returns a module-level table by reference"
            led.check(
                bad is None,
                prefix + ".fresh",
                ck0,
                where,
                "%s %s: mutating the result changes later results" % (label, bad),
            )
    return n_calls, n_sites


def check_effect_writes(ctx, led, v, prefix="C18", only=None):
    """E4 cross-check: transitive write set of every accessor is empty."""
    E = get_effects(ctx)
    info = VERSIONS[v]
    n = 0
    for a in ACCESSORS[v]:
        if only is not None and a not in only:
            continue
        q = "%s.%s.%s" % (info["mod"], info["cls"], a)
        if q not in E.infos:
            raise AnalysisError(prefix + ".anchor", "%s vanished" % q)
        effs = E.effects_of([q], kinds=("self_write", "global_write", "param_write", "cache", "global_stmt", "ambient"))
        n += 1
        if not effs:
            led.ok(prefix + ".effects", q, "cvss/%s.py" % info["mod"], "transitive write set empty (%d functions)" % len(E.reachable([q])))
        for e in effs:
            # syntactic census only: whether a write can be observed by a later call is decided on
            # the value graph (rule .writes re-runs every accessor on the state left behind); a
            # module-level or ambient write is C19's matter unless it changes a result
            led.info(
                prefix + ".effects",
                e.key(),
                e.where(),
                "accessor %s reaches a state-changing construct (%s): %s" % (a, e.kind, e.what),
            )
    return n


def check_foreign_attr_writes(ctx, led, rule="C18.frozen", attrs=None):
    """An object of a CVSSn class is a value fixed by its constructor: outside the class's own
    `self` methods nothing in the package may assign its attributes.  Finds `x.attr = ...` /
    `setattr(x, ...)` / augmented stores where x is a local bound to a call of CVSSn(...) / `cls(...)`
    inside a classmethod of such a class (from_rh_vector sets `.vector` to the Red Hat string →
    as_json() echoes it as vectorString).  `attrs` restricts the report to some attribute names."""
    n = 0
    cvss_classes = set(c for m in ctx.repo.modules.values() for c in m.classes.values() if c.name in ("CVSS2", "CVSS3", "CVSS4"))
    for m in ctx.repo.modules.values():
        for f in m.all_functions():
            first = f.params[0] if (f.cls is not None and f.params and not f.is_staticmethod) else None
            made = {}
            for x in ast.walk(f.node):
                if isinstance(x, ast.Assign) and len(x.targets) == 1 and isinstance(x.targets[0], ast.Name) and isinstance(x.value, ast.Call):
                    fn = x.value.func
                    cls = None
                    if isinstance(fn, ast.Name):
                        if f.is_classmethod and first is not None and fn.id == first and f.cls in cvss_classes:
                            cls = f.cls.name
                        else:
                            r = ctx.repo.resolve_global(m, fn.id)
                            if r and r[0] == "class" and r[1] in cvss_classes:
                                cls = r[1].name
                    elif isinstance(fn, ast.Attribute) and fn.attr == "from_rh_vector":
                        cls = "CVSS"
                    if cls:
                        made[x.targets[0].id] = cls
            if not made:
                continue
            for x in ast.walk(f.node):
                tgt = None
                if isinstance(x, ast.Attribute) and isinstance(x.ctx, (ast.Store, ast.Del)) and isinstance(x.value, ast.Name):
                    tgt = (x.value.id, x.attr)
                elif isinstance(x, ast.Call) and isinstance(x.func, ast.Name) and x.func.id in ("setattr", "delattr") and x.args and isinstance(x.args[0], ast.Name):
                    tgt = (x.args[0].id, x.args[1].value if len(x.args) > 1 and isinstance(x.args[1], ast.Constant) else "?")
                if tgt is None or tgt[0] not in made or tgt[0] == first and not f.is_classmethod:
                    continue
                n += 1
                if attrs is not None and tgt[1] not in attrs and tgt[1] != "?":
                    continue
                st = x
                while not isinstance(st, ast.stmt):
                    st = m.parent(st)
                led.violation(
                    rule,
                    "%s::%s" % (f.qualname, short(st)),
                    m.where(x),
                    "the %s object constructed here is modified afterwards (attribute %s): what its accessors report is no longer a "
                    "function of the string it was constructed from" % (made[tgt[0]], tgt[1]),
                )
    if n == 0:
        led.ok(rule, "package-wide", "cvss/", "no function assigns attributes of a CVSS object it did not receive as self")
    return n
