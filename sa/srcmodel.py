"""E1 — source model: parses the analysed package, never imports it.

Gives modules, classes, functions, import resolution, parent links, normalised statement keys
(used as stable finding keys) and a digest of the consulted files.
"""

from __future__ import annotations

import ast
import hashlib
import os
import re

REPO = os.environ.get("VERIF_REPO", "/repo")
PKG = "cvss"
MODULES = [
    "__init__",
    "constants2",
    "constants3",
    "constants4",
    "cvss2",
    "cvss3",
    "cvss4",
    "cvss_calculator",
    "exceptions",
    "interactive",
    "parser",
]


class AnalysisError(Exception):
    """An anchor vanished or a construct is outside the supported subset (exit 2)."""

    def __init__(self, rule, message, node=None, module=None):
        self.rule = rule
        self.message = message
        self.node = node
        self.module = module
        where = ""
        if module is not None and node is not None and hasattr(node, "lineno"):
            where = " at %s:%s" % (module.relpath, node.lineno)
        elif module is not None:
            where = " in %s" % module.relpath
        Exception.__init__(self, "%s: %s%s" % (rule, message, where))


def norm_src(node):
    """Normalised text of a node: ast.unparse (formatting/comment independent)."""
    try:
        return ast.unparse(node)
    except Exception:  # pragma: no cover
        return ast.dump(node)


def short(node, n=110):
    s = norm_src(node).replace("\n", " ")
    s = re.sub(r"\s+", " ", s)
    return s if len(s) <= n else s[: n - 3] + "..."


class Func(object):
    def __init__(self, module, node, cls=None, outer=None):
        self.module = module
        self.node = node
        self.cls = cls
        self.outer = outer
        self.name = node.name
        self.is_classmethod = any(
            isinstance(d, ast.Name) and d.id == "classmethod" for d in node.decorator_list
        )
        self.is_staticmethod = any(
            isinstance(d, ast.Name) and d.id == "staticmethod" for d in node.decorator_list
        )
        self.is_property = any(isinstance(d, ast.Name) and d.id == "property" for d in node.decorator_list)

    @property
    def qualname(self):
        parts = []
        if self.cls is not None:
            parts.append(self.cls.name)
        if self.outer is not None:
            parts.append(self.outer.name)
        parts.append(self.name)
        return self.module.name + "." + ".".join(parts)

    @property
    def params(self):
        a = self.node.args
        return [x.arg for x in a.posonlyargs + a.args]

    def __repr__(self):
        return "<Func %s>" % self.qualname


class Cls(object):
    def __init__(self, module, node):
        self.module = module
        self.node = node
        self.name = node.name
        self.methods = {}
        self.own_methods = {}
        self.class_assigns = {}  # class-level NAME = value (own and, after Repo.link_classes, inherited)
        self.bases = []
        self.setters = {}  # property name -> Func of its @name.setter
        for st in node.body:
            if isinstance(st, (ast.FunctionDef, ast.AsyncFunctionDef)):
                if any(isinstance(d, ast.Attribute) and d.attr in ("setter", "deleter") and isinstance(d.value, ast.Name) and d.value.id == st.name for d in st.decorator_list):
                    if any(isinstance(d, ast.Attribute) and d.attr == "setter" for d in st.decorator_list):
                        self.setters[st.name] = Func(module, st, cls=self)
                    continue
                self.methods[st.name] = Func(module, st, cls=self)
            elif isinstance(st, ast.Assign) and len(st.targets) == 1 and isinstance(st.targets[0], ast.Name):
                self.class_assigns[st.targets[0].id] = (module, st.value)
        self.own_methods = dict(self.methods)

    @property
    def qualname(self):
        return self.module.name + "." + self.name

    def __repr__(self):
        return "<Cls %s>" % self.qualname


class Module(object):
    def __init__(self, name, path, relpath, source):
        self.name = name
        self.path = path
        self.relpath = relpath
        self.source = source
        self.tree = ast.parse(source, filename=path)
        self.parents = {}
        for parent in ast.walk(self.tree):
            for child in ast.iter_child_nodes(parent):
                self.parents[child] = parent
        self.functions = {}
        self.classes = {}
        # name -> ("import", module, attr) | ("module", modname) for imported names
        self.imports = {}
        # module-level simple assignments name -> value node (last one wins, all recorded)
        self.assigns = {}
        self.assign_nodes = {}
        self._index()

    def _index(self):
        for st in self.iter_toplevel():
            if isinstance(st, (ast.FunctionDef, ast.AsyncFunctionDef)):
                self.functions[st.name] = Func(self, st)
            elif isinstance(st, ast.ClassDef):
                self.classes[st.name] = Cls(self, st)
            elif isinstance(st, ast.ImportFrom):
                mod = st.module or ""
                for al in st.names:
                    self.imports[al.asname or al.name] = ("from", st.level, mod, al.name)
            elif isinstance(st, ast.Import):
                for al in st.names:
                    self.imports[al.asname or al.name.split(".")[0]] = ("module", al.name)
            elif isinstance(st, ast.Assign):
                for t in st.targets:
                    if isinstance(t, ast.Name):
                        self.assigns[t.id] = st.value
                        self.assign_nodes.setdefault(t.id, []).append(st)
            elif isinstance(st, ast.AnnAssign) and isinstance(st.target, ast.Name) and st.value:
                self.assigns[st.target.id] = st.value
                self.assign_nodes.setdefault(st.target.id, []).append(st)

    def iter_toplevel(self):
        """Top-level statements, looking through try/except and if wrappers."""

        def rec(body):
            for st in body:
                if isinstance(st, ast.Try):
                    for x in rec(st.body):
                        yield x
                    for h in st.handlers:
                        for x in rec(h.body):
                            yield x
                    for x in rec(st.orelse):
                        yield x
                    for x in rec(st.finalbody):
                        yield x
                elif isinstance(st, ast.If):
                    for x in rec(st.body):
                        yield x
                    for x in rec(st.orelse):
                        yield x
                else:
                    yield st

        return rec(self.tree.body)

    def parent(self, node):
        return self.parents.get(node)

    def ancestors(self, node):
        p = self.parents.get(node)
        while p is not None:
            yield p
            p = self.parents.get(p)

    def enclosing_function(self, node):
        for a in self.ancestors(node):
            if isinstance(a, (ast.FunctionDef, ast.AsyncFunctionDef, ast.Lambda)):
                return a
        return None

    def enclosing_class(self, node):
        for a in self.ancestors(node):
            if isinstance(a, ast.ClassDef):
                return a
        return None

    def where(self, node):
        return "%s:%s" % (self.relpath, getattr(node, "lineno", "?"))

    def all_functions(self):
        """Every function/method/nested function as Func objects."""
        out = []

        def rec(fn):
            out.append(fn)
            for n in ast.walk(fn.node):
                if n is fn.node:
                    continue
                if isinstance(n, (ast.FunctionDef, ast.AsyncFunctionDef)):
                    if self.enclosing_function(n) is fn.node:
                        rec(Func(self, n, cls=fn.cls, outer=fn))

        for f in self.functions.values():
            rec(f)
        for c in self.classes.values():
            for m in c.methods.values():
                rec(m)
        return out


class Repo(object):
    def __init__(self, root=None):
        self.root = root or REPO
        self.modules = {}
        self.digest_parts = []
        pkgdir = os.path.join(self.root, PKG)
        if not os.path.isdir(pkgdir):
            raise AnalysisError("E1.anchor", "package directory %s not found" % pkgdir)
        present = sorted(f[:-3] for f in os.listdir(pkgdir) if f.endswith(".py"))
        for name in present:
            path = os.path.join(pkgdir, name + ".py")
            with open(path, "rb") as f:
                raw = f.read()
            self.digest_parts.append((PKG + "/" + name + ".py", hashlib.sha256(raw).hexdigest()))
            try:
                src = raw.decode("utf-8")
                self.modules[name] = Module(name, path, PKG + "/" + name + ".py", src)
            except SyntaxError as e:
                raise AnalysisError("E1.parse", "cannot parse %s: %s" % (path, e))
        for name in MODULES:
            if name not in self.modules:
                raise AnalysisError("E1.anchor", "module cvss/%s.py vanished" % name)
        self.link_classes()

    def link_classes(self):
        """Single inheritance inside the package (a common base class, a mixin): methods and
        class-level constants of the bases become visible on the subclass unless overridden."""
        done = set()

        def link(c, depth=0):
            if id(c) in done or depth > 6:
                return
            done.add(id(c))
            for b in c.node.bases:
                if not isinstance(b, ast.Name):
                    continue
                r = self.resolve_global(c.module, b.id)
                if r is None or r[0] != "class":
                    continue
                base = r[1]
                link(base, depth + 1)
                c.bases.append(base)
                for name, f in base.methods.items():
                    c.methods.setdefault(name, f)
                for name, v in base.class_assigns.items():
                    c.class_assigns.setdefault(name, v)

        for m in self.modules.values():
            for c in m.classes.values():
                link(c)

    def digest(self):
        h = hashlib.sha256()
        for p, d in self.digest_parts:
            h.update((p + ":" + d + "\n").encode())
        return h.hexdigest()

    def module(self, name):
        if name not in self.modules:
            raise AnalysisError("E1.anchor", "module cvss/%s.py vanished" % name)
        return self.modules[name]

    def cls(self, modname, clsname):
        m = self.module(modname)
        if clsname not in m.classes:
            raise AnalysisError("E1.anchor", "class %s.%s vanished" % (modname, clsname), module=m)
        return m.classes[clsname]

    def method(self, modname, clsname, meth):
        c = self.cls(modname, clsname)
        if meth not in c.methods:
            raise AnalysisError(
                "E1.anchor", "method %s.%s.%s vanished" % (modname, clsname, meth), module=c.module
            )
        return c.methods[meth]

    def function(self, modname, fname):
        m = self.module(modname)
        if fname not in m.functions:
            raise AnalysisError("E1.anchor", "function %s.%s vanished" % (modname, fname), module=m)
        return m.functions[fname]

    def resolve_import(self, module, name):
        """Resolve a name imported into `module` to (target_module, attr) inside the package, or
        ("ext", dotted) for anything outside it. Returns None if `name` is not an import."""
        imp = module.imports.get(name)
        if imp is None:
            return None
        if imp[0] == "module":
            return ("ext", imp[1])
        _, level, mod, attr = imp
        if level >= 1:
            target = mod
            if target == "":
                # from . import x
                if attr in self.modules:
                    return ("mod", attr)
                return ("ext", "." + attr)
            if target in self.modules:
                return ("pkg", target, attr)
            return ("ext", "." + target + "." + attr)
        # absolute
        if mod == PKG:
            # from cvss import X  -> via __init__
            init = self.modules["__init__"]
            r = self.resolve_import(init, attr)
            if r is not None:
                return r
            return ("pkg", "__init__", attr)
        if mod.startswith(PKG + "."):
            sub = mod[len(PKG) + 1 :]
            if sub in self.modules:
                return ("pkg", sub, attr)
        return ("ext", mod + "." + attr)

    def resolve_global(self, module, name, _depth=0):
        """Follow a module-level name to its definition.

        Returns one of
          ("func", Func) ("class", Cls) ("value", Module, ast value node) ("ext", dotted) or None.
        """
        if _depth > 8:
            return None
        if name in module.functions:
            return ("func", module.functions[name])
        if name in module.classes:
            return ("class", module.classes[name])
        if name in module.assigns:
            return ("value", module, module.assigns[name])
        r = self.resolve_import(module, name)
        if r is None:
            return None
        if r[0] == "ext":
            return r
        if r[0] == "mod":
            return ("module", self.modules[r[1]])
        _, target, attr = r
        return self.resolve_global(self.modules[target], attr, _depth + 1)
