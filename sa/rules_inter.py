"""C16 — structural analysis of interactive.ask_interactively (E3 + E6 decision tables)."""

from __future__ import annotations

import ast

from . import guards as G
from .ctx import VERSIONS
from .rules_parse import call_of, chain_arms, parse_summary
from .srcmodel import AnalysisError, norm_src, short

VERSION_VALUES = [2, 3.0, 3.1, 4.0]
CONST_OF_VERSION = {2: "constants2", 3.0: "constants3", 3.1: "constants3", 4.0: "constants4"}
NUM_OF_VERSION = {2: 2, 3.0: 3, 3.1: 3, 4.0: 4}
PREFIX_OF_VERSION = {2: "", 3.0: "CVSS:3.0/", 3.1: "CVSS:3.1/", 4.0: "CVSS:4.0/"}
CASE_FOLDS = ("upper", "lower", "casefold")
IDEMPOTENT = ("strip", "lstrip", "rstrip", "upper", "lower", "casefold")


def eval_guard(expr, env):
    """Evaluate a guard over constants and the names in env (decision-table evaluation)."""
    if isinstance(expr, ast.Constant):
        return expr.value
    if isinstance(expr, ast.Name):
        if expr.id in env:
            return env[expr.id]
        raise KeyError(expr.id)
    if isinstance(expr, ast.UnaryOp) and isinstance(expr.op, ast.Not):
        return not eval_guard(expr.operand, env)
    if isinstance(expr, ast.BoolOp):
        vals = [eval_guard(v, env) for v in expr.values]
        return all(vals) if isinstance(expr.op, ast.And) else any(vals)
    if isinstance(expr, ast.Compare):
        left = eval_guard(expr.left, env)
        for op, c in zip(expr.ops, expr.comparators):
            right = eval_guard(c, env)
            r = {
                ast.Eq: lambda a, b: a == b,
                ast.NotEq: lambda a, b: a != b,
                ast.Lt: lambda a, b: a < b,
                ast.LtE: lambda a, b: a <= b,
                ast.Gt: lambda a, b: a > b,
                ast.GtE: lambda a, b: a >= b,
                ast.In: lambda a, b: a in b,
                ast.NotIn: lambda a, b: a not in b,
            }[type(op)](left, right)
            if not r:
                return False
            left = right
        return True
    if isinstance(expr, (ast.Tuple, ast.List)):
        return [eval_guard(e, env) for e in expr.elts]
    if isinstance(expr, ast.Call) and isinstance(expr.func, ast.Name) and expr.func.id == "len" and len(expr.args) == 1 and not expr.keywords:
        return len(eval_guard(expr.args[0], env))
    if (
        isinstance(expr, ast.Call)
        and isinstance(expr.func, ast.Attribute)
        and not expr.keywords
        and expr.func.attr in ("upper", "lower", "strip", "lstrip", "rstrip", "casefold", "startswith", "endswith", "isalpha", "isdigit", "isupper", "islower", "isalnum", "keys")
    ):
        recv = eval_guard(expr.func.value, env)
        args = [eval_guard(a, env) for a in expr.args]
        if isinstance(recv, str) or (expr.func.attr == "keys" and isinstance(recv, dict)):
            r = getattr(recv, expr.func.attr)(*args)
            return list(r) if expr.func.attr == "keys" else r
        raise KeyError(norm_src(expr))
    if isinstance(expr, ast.Subscript) and not isinstance(expr.slice, ast.Slice):
        base = eval_guard(expr.value, env)
        idx = eval_guard(expr.slice, env)
        try:
            return base[idx]
        except Exception:
            raise KeyError(norm_src(expr))
    raise KeyError(norm_src(expr))


def chain_result(ifnode, env):
    """Body taken by an if/elif/else chain for the environment env."""
    node = ifnode
    while True:
        if eval_guard(node.test, env):
            return node.body
        if len(node.orelse) == 1 and isinstance(node.orelse[0], ast.If):
            node = node.orelse[0]
            continue
        return node.orelse


def apply_norm(chain, s):
    for m in chain:
        s = getattr(s, m)()
    return s


def check_c16_structural(ctx, led):
    f = ctx.repo.function("interactive", "ask_interactively")
    module = f.module
    where = module.where(f.node)
    params = f.params
    if len(params) < 2:
        raise AnalysisError("C16.anchor", "ask_interactively lost its parameters", f.node, module)
    vname = params[0]
    allname = params[1]
    body = f.node.body
    # ---- (0) "repeats the question until legal" for every finite answer sequence: re-asking must
    # be iteration; a call-graph cycle reachable from the builder grows the stack with every
    # illegal answer and dies with RecursionError after a finite number of them
    from .rules_access import get_effects

    E = get_effects(ctx)
    reach = E.reachable([f.qualname], loose_methods=False)
    cyc = []
    for q in sorted(reach):
        if q in E.reachable(sorted(E.callees(q, loose_methods=False)), loose_methods=False):
            cyc.append(q)
    for q in cyc:
        fq = E.by_qual[q]
        led.violation(
            "C16.ask.recursion",
            "%s::recursive re-ask" % q,
            fq.module.where(fq.node),
            "%s is reachable from ask_interactively and calls itself (directly or indirectly): every repeated question "
            "deepens the stack, so a finite run of illegal answers ends in RecursionError instead of another question" % q,
        )
    if not cyc:
        led.ok("C16.ask.recursion", "interactive.ask_interactively::call graph", where, "%d reachable functions, no cycle" % len(reach))
    # ---- (1) version -> constants module
    table_if = None
    for st in body:
        if isinstance(st, ast.If) and any(isinstance(x, ast.ImportFrom) for x in ast.walk(st)):
            table_if = st
    if table_if is None:
        raise AnalysisError("C16.tables", "no version-dependent import of the constants found", f.node, module)
    imported = {}
    for v in VERSION_VALUES:
        try:
            arm = chain_result(table_if, {vname: v})
        except KeyError as e:
            raise AnalysisError("C16.tables", "version switch mentions %s" % e, table_if, module)
        mods = [x.module for b in arm for x in ast.walk(b) if isinstance(x, ast.ImportFrom)]
        names = sorted(al.asname or al.name for b in arm for x in ast.walk(b) if isinstance(x, ast.ImportFrom) for al in x.names)
        imported[v] = (mods, names)
        led.check(
            mods == [CONST_OF_VERSION[v]],
            "C16.tables",
            "interactive.ask_interactively::version %s -> tables" % v,
            module.where(table_if),
            "version %s must use %s; the switch selects %s" % (v, CONST_OF_VERSION[v], mods or "an error"),
        )
    # an unknown version must not fall into some table
    try:
        arm = chain_result(table_if, {vname: 5.0})
        led.check(
            G.terminates(arm) or not any(isinstance(x, ast.ImportFrom) for b in arm for x in ast.walk(b)),
            "C16.tables.else",
            "interactive.ask_interactively::unknown version",
            module.where(table_if),
            "an unsupported version silently uses some version's tables",
        )
    except KeyError:
        pass
    # table names
    need = {"METRICS_ABBREVIATIONS", "METRICS_MANDATORY", "METRICS_VALUE_NAMES"}
    for v in VERSION_VALUES:
        if not need <= set(imported[v][1]):
            raise AnalysisError("C16.tables", "the arm for version %s does not import %s" % (v, sorted(need)), table_if, module)
    # ---- (2) metric selection
    floop = None
    for st in body:
        if isinstance(st, ast.For):
            floop = st
    if floop is None:
        raise AnalysisError("C16.ask", "no loop over the metrics", f.node, module)
    metric = floop.target.id if isinstance(floop.target, ast.Name) else None
    iter_name = floop.iter.id if isinstance(floop.iter, ast.Name) else None
    sel_ok = False
    for st in body:
        if isinstance(st, ast.If) and isinstance(st.test, ast.Name) and st.test.id == allname:
            tb = [x for x in st.body if isinstance(x, ast.Assign)]
            eb = [x for x in st.orelse if isinstance(x, ast.Assign)]
            if len(tb) == 1 and len(eb) == 1:
                t_all = norm_src(tb[0].value)
                t_mand = norm_src(eb[0].value)
                sel_ok = (
                    isinstance(tb[0].targets[0], ast.Name)
                    and tb[0].targets[0].id == iter_name
                    and eb[0].targets[0].id == iter_name
                    and t_all in ("METRICS_ABBREVIATIONS.keys()", "METRICS_ABBREVIATIONS", "list(METRICS_ABBREVIATIONS)", "list(METRICS_ABBREVIATIONS.keys())")
                    and t_mand == "METRICS_MANDATORY"
                )
    led.check(
        sel_ok,
        "C16.ask.selection",
        "interactive.ask_interactively::metric selection",
        where,
        "metrics asked must be all keys of METRICS_ABBREVIATIONS when all_metrics is true and METRICS_MANDATORY otherwise",
    )
    # ---- (3) answer loop
    whiles = [n for n in ast.walk(floop) if isinstance(n, ast.While)]
    if len(whiles) != 1:
        raise AnalysisError("C16.ask", "expected one answer loop per metric, found %d" % len(whiles), floop, module)
    wl = whiles[0]
    led.check(
        isinstance(wl.test, ast.Constant) and wl.test.value is True and not wl.orelse,
        "C16.ask.loop",
        "interactive.ask_interactively::answer loop header",
        module.where(wl),
        "the question must be repeated until an answer is accepted (`while True`)",
    )
    breaks = [n for n in ast.walk(wl) if isinstance(n, ast.Break)]
    rets = [n for n in ast.walk(wl) if isinstance(n, (ast.Return,))]
    appends = [
        n
        for n in ast.walk(f.node)
        if isinstance(n, ast.Call) and isinstance(n.func, ast.Attribute) and n.func.attr in ("append", "extend", "insert") and isinstance(n.func.value, ast.Name)
    ]
    # the list that is joined and returned
    join_lists = set()
    for n in ast.walk(f.node):
        c = call_of(n, "join")
        if c and c[1] and isinstance(c[1][0], ast.Name) and isinstance(c[0], ast.Constant) and c[0].value == "/":
            join_lists.add(c[1][0].id)
    appends = [a for a in appends if a.func.value.id in join_lists and a.func.attr == "append"]
    if len(appends) != 1 or len(breaks) != 1 or rets:
        led.violation(
            "C16.ask.exit",
            "interactive.ask_interactively::answer loop exits",
            module.where(wl),
            "the answer loop must have exactly one exit, a break right after the only append to the result "
            "(found %d append(s), %d break(s), %d return(s))" % (len(appends), len(breaks), len(rets)),
        )
        return 0
    ap, br = appends[0], breaks[0]
    ap_stmt = ap
    while not isinstance(ap_stmt, ast.stmt):
        ap_stmt = module.parent(ap_stmt)
    parent = module.parent(ap_stmt)
    blk = None
    for field in ("body", "orelse"):
        if ap_stmt in getattr(parent, field, []):
            blk = getattr(parent, field)
    adj = blk is not None and br in blk and blk.index(br) == blk.index(ap_stmt) + 1 and any(a is wl for a in module.ancestors(ap_stmt))
    led.check(
        adj,
        "C16.ask.exit",
        "interactive.ask_interactively::%s" % short(ap_stmt),
        module.where(ap_stmt),
        "the append of the accepted answer must be immediately followed by the loop's break (one accepted answer per metric)",
    )
    # appended expression: metric + ":" + V
    arg = ap.args[0] if ap.args else None
    parts = []

    def flat(e):
        if isinstance(e, ast.BinOp) and isinstance(e.op, ast.Add):
            flat(e.left)
            flat(e.right)
        else:
            parts.append(e)

    if arg is not None:
        flat(arg)
    shape_ok = (
        len(parts) == 3
        and isinstance(parts[0], ast.Name)
        and parts[0].id == metric
        and isinstance(parts[1], ast.Constant)
        and parts[1].value == ":"
    )
    led.check(
        shape_ok,
        "C16.accept.shape",
        "interactive.ask_interactively::%s" % short(ap_stmt),
        module.where(ap_stmt),
        "the appended field must be <metric> + ':' + <accepted value>",
    )
    if not shape_ok:
        return 0
    V = parts[2]
    facts = G.dominating_facts(module, ap_stmt, stop=wl)
    # values table
    vals_name = None
    for n in ast.walk(floop):
        if isinstance(n, ast.Assign) and isinstance(n.targets[0], ast.Name):
            src = norm_src(n.value)
            if src in ("METRICS_VALUE_NAMES[%s]" % metric, "METRICS_VALUE_NAMES[%s].keys()" % metric, "list(METRICS_VALUE_NAMES[%s])" % metric):
                vals_name = n.targets[0].id
    if vals_name is None:
        raise AnalysisError("C16.accept", "the legal values are not taken from METRICS_VALUE_NAMES[metric]", floop, module)
    mode = None
    answer = None
    norm2 = []
    if isinstance(V, ast.Name):
        for fa in facts:
            e = fa.expr
            if (
                fa.pol
                and isinstance(e, ast.Compare)
                and isinstance(e.ops[0], ast.In)
                and isinstance(e.left, ast.Name)
                and e.left.id == V.id
                and isinstance(e.comparators[0], ast.Name)
                and e.comparators[0].id == vals_name
            ):
                mode, answer = "A", V.id
    elif isinstance(V, ast.Subscript) and isinstance(V.value, ast.Name) and isinstance(V.slice, ast.Constant) and V.slice.value == 0:
        mname = V.value.id
        guarded = any(fa.pol and isinstance(fa.expr, ast.Name) and fa.expr.id == mname for fa in facts)
        for n in ast.walk(wl):
            if isinstance(n, ast.Assign) and isinstance(n.targets[0], ast.Name) and n.targets[0].id == mname and isinstance(n.value, ast.ListComp):
                lc = n.value
                g = lc.generators[0]
                if (
                    len(lc.generators) == 1
                    and isinstance(g.iter, ast.Name)
                    and g.iter.id == vals_name
                    and isinstance(g.target, ast.Name)
                    and isinstance(lc.elt, ast.Name)
                    and lc.elt.id == g.target.id
                    and len(g.ifs) == 1
                    and isinstance(g.ifs[0], ast.Compare)
                    and isinstance(g.ifs[0].ops[0], ast.Eq)
                ):
                    l, r = g.ifs[0].left, g.ifs[0].comparators[0]
                    for a, b in ((l, r), (r, l)):
                        chain = []
                        x = a
                        while isinstance(x, ast.Call) and isinstance(x.func, ast.Attribute) and not x.args:
                            chain.insert(0, x.func.attr)
                            x = x.func.value
                        if isinstance(x, ast.Name) and x.id == g.target.id and isinstance(b, ast.Name) and guarded:
                            mode, answer, norm2 = "B", b.id, chain
    if mode is None:
        led.violation(
            "C16.accept.test",
            "interactive.ask_interactively::%s" % short(ap_stmt),
            module.where(ap_stmt),
            "the appended value is not guarded by a membership test of the answer in the metric's legal values "
            "(an invalid answer could be accepted, or the idiom is not recognised)",
        )
        return 0
    led.ok("C16.accept.test", "interactive.ask_interactively::%s" % short(ap_stmt), module.where(ap_stmt), "idiom %s" % mode)
    # ---- (4) the answer's normaliser chain and the empty-answer default
    norm_in = None
    for n in ast.walk(wl):
        if isinstance(n, ast.Assign) and isinstance(n.targets[0], ast.Name) and n.targets[0].id == answer:
            chain = []
            x = n.value
            while isinstance(x, ast.Call) and isinstance(x.func, ast.Attribute) and not x.args:
                chain.insert(0, x.func.attr)
                x = x.func.value
            if isinstance(x, ast.Call) and isinstance(x.func, ast.Name) and x.func.id in ("string_input", "input", "raw_input") and norm_in is None:
                norm_in = (chain, n)
    if norm_in is None:
        raise AnalysisError("C16.reach", "cannot find where the answer is read", wl, module)
    chain, read_stmt = norm_in
    unknown = [m for m in chain + norm2 if m not in IDEMPOTENT]
    if unknown:
        raise AnalysisError("C16.reach", "normaliser %s not modelled" % unknown, read_stmt, module)
    led.check(
        any(m in CASE_FOLDS for m in chain),
        "C16.reach.case",
        "interactive.ask_interactively::%s" % short(read_stmt),
        module.where(read_stmt),
        "answers must be matched case-insensitively: the answer is not case-folded",
    )
    # empty answer -> ND token of the version, before the accept test
    default_if = None
    for n in ast.walk(wl):
        if isinstance(n, ast.If) and norm_src(n.test) in ("not %s" % answer, "%s == ''" % answer, "len(%s) == 0" % answer):
            default_if = n
    nd_ok = default_if is not None
    if default_if is not None:
        for v in VERSION_VALUES:
            tok = None
            try:
                inner = default_if.body
                if len(inner) == 1 and isinstance(inner[0], ast.If):
                    arm = chain_result(inner[0], {vname: v})
                else:
                    arm = inner
                for b in arm:
                    if isinstance(b, ast.Assign) and isinstance(b.targets[0], ast.Name) and b.targets[0].id == answer and isinstance(b.value, ast.Constant):
                        tok = b.value.value
            except KeyError:
                tok = None
            want = ctx.vspec(NUM_OF_VERSION[v])["nd"]
            led.check(
                tok == want,
                "C16.accept.empty",
                "interactive.ask_interactively::empty answer for version %s" % v,
                module.where(default_if),
                "an empty answer must stand for %r in version %s (found %r)" % (want, v, tok),
            )
        order_ok = default_if.lineno < ap_stmt.lineno and default_if.lineno > read_stmt.lineno
        led.check(
            order_ok,
            "C16.accept.empty.order",
            "interactive.ask_interactively::empty answer handling",
            module.where(default_if),
            "the empty answer must be replaced by the Not Defined token before the legality test",
        )
    else:
        led.violation("C16.accept.empty", "interactive.ask_interactively::empty answer", module.where(wl), "an empty answer is not mapped to Not Defined")
    # ---- (5) every legal value can be selected; builder and parser agree on the values
    n_vals = 0
    for vnum in (2, 3, 4):
        const = VERSIONS[vnum]["const"]
        names = ctx.ce.table(const, "METRICS_VALUE_NAMES", "C16.tables")
        abbr = ctx.ce.table(const, "METRICS_ABBREVIATIONS", "C16.tables")
        mand = ctx.ce.table(const, "METRICS_MANDATORY", "C16.tables")
        acc = parse_summary(ctx, vnum)["accepted"]
        nd = ctx.vspec(vnum)["nd"]
        led.check(
            set(abbr.keys()) == set(acc.keys()) and set(mand) == set(ctx.vspec(vnum)["mandatory"]),
            "C16.tables.metrics",
            "%s asked metrics" % const,
            "cvss/%s.py" % const,
            "the metrics asked differ from the metrics the parser accepts / the specification's mandatory metrics",
        )
        for k in abbr:
            row = names.get(k)
            if not isinstance(row, dict):
                led.violation("C16.tables.values", "%s.METRICS_VALUE_NAMES[%s]" % (const, k), "cvss/%s.py" % const, "asked metric %s has no value row" % k)
                continue
            led.check(
                set(row.keys()) == set(acc.get(k) or []),
                "C16.tables.values",
                "%s.METRICS_VALUE_NAMES[%s]" % (const, k),
                "cvss/%s.py" % const,
                "values the builder accepts for %s (%s) differ from the values the parser accepts (%s)"
                % (k, sorted(row.keys()), sorted(acc.get(k) or [])),
            )
            keys = list(row.keys())
            for val in keys:
                n_vals += 1
                if mode == "A":
                    reach = apply_norm(chain, val) == val
                else:
                    reach = apply_norm(chain, val) == apply_norm(norm2, val) and [x for x in keys if apply_norm(norm2, x) == apply_norm(norm2, val)][0] == val
                if not reach:
                    led.violation(
                        "C16.reach",
                        "interactive.ask_interactively::%s" % short(read_stmt),
                        module.where(read_stmt),
                        "legal value %s:%s of CVSS v%d can never be selected: the answer is normalised with %s and then "
                        "compared with the table spelling %r" % (k, val, vnum, "/".join(chain), val),
                    )
                    break
            else:
                continue
            break
    led.ok("C16.reach", "interactive.ask_interactively::reachability", module.where(read_stmt), "%d legal values are fixed points of the normaliser" % n_vals)
    # ---- (5b) no other exit of the answer loop may take a legal answer away from the accept test
    diverts = [n for n in ast.walk(wl) if isinstance(n, (ast.Continue, ast.Break, ast.Return, ast.Raise)) and n is not br]
    n_div = 0
    for dv in diverts:
        dfacts = G.dominating_facts(module, dv, stop=wl)
        hit = None
        for vnum, vv in ((2, 2), (3, 3.0), (3, 3.1), (4, 4.0)):
            const = VERSIONS[vnum]["const"]
            names = ctx.ce.table(const, "METRICS_VALUE_NAMES", "C16.tables")
            nd = ctx.vspec(vnum)["nd"]
            for k, row in names.items():
                if not isinstance(row, dict):
                    continue
                for val in row:
                    for typed in (apply_norm(chain, val), "" if val == nd else None):
                        if typed is None:
                            continue
                        env = {answer: typed, vname: vv, allname: True, vals_name: list(row.keys())}
                        if metric:
                            env[metric] = k
                        try:
                            taken = all(bool(eval_guard(fa.expr, env)) == fa.pol for fa in dfacts)
                        except KeyError as e:
                            raise AnalysisError(
                                "C16.reach", "cannot evaluate the guard of `%s` (%s) for a legal answer" % (short(dv), e), dv, module
                            )
                        n_div += 1
                        if taken and hit is None:
                            hit = (vnum, k, val, typed)
        led.check(
            hit is None,
            "C16.reach.divert",
            "interactive.ask_interactively::%s" % short(dv),
            module.where(dv),
            "a legal answer leaves the accept path: for CVSS v%s metric %s the answer %r (value %s) takes `%s` before the "
            "legality test, so that value can never be selected" % ((hit[0], hit[1], hit[3], hit[2], short(dv)) if hit else ("", "", "", "", "")),
        )
    led.ok("C16.reach.divert", "interactive.ask_interactively::other loop exits", module.where(wl), "%d other exits, %d guard evaluations" % (len(diverts), n_div))
    # ---- (6) prefix and result
    ret = [n for n in ast.walk(f.node) if isinstance(n, ast.Return) and n.value is not None]
    pre_if = None
    for st in body:
        if isinstance(st, ast.If) and any(isinstance(x, ast.Constant) and isinstance(x.value, str) and x.value.startswith("CVSS:") for x in ast.walk(st)):
            if not any(isinstance(x, ast.ImportFrom) for x in ast.walk(st)):
                pre_if = st
    if pre_if is None or len(ret) != 1 or not isinstance(ret[0].value, ast.Name):
        raise AnalysisError("C16.prefix", "result construction not recognised", f.node, module)
    rname = ret[0].value.id
    for v in VERSION_VALUES:
        try:
            arm = chain_result(pre_if, {vname: v})
        except KeyError as e:
            raise AnalysisError("C16.prefix", "prefix switch mentions %s" % e, pre_if, module)
        got = None
        for b in arm:
            if isinstance(b, ast.Assign) and isinstance(b.targets[0], ast.Name) and b.targets[0].id == rname:
                e = b.value
                ps = []

                def flat2(x):
                    if isinstance(x, ast.BinOp) and isinstance(x.op, ast.Add):
                        flat2(x.left)
                        flat2(x.right)
                    else:
                        ps.append(x)

                flat2(e)
                j = ps[-1]
                c = call_of(j, "join")
                if c and isinstance(c[0], ast.Constant) and c[0].value == "/" and isinstance(c[1][0], ast.Name) and c[1][0].id in join_lists:
                    pre = "".join(x.value for x in ps[:-1] if isinstance(x, ast.Constant))
                    if all(isinstance(x, ast.Constant) for x in ps[:-1]):
                        got = pre
        led.check(
            got == PREFIX_OF_VERSION[v],
            "C16.prefix",
            "interactive.ask_interactively::prefix for version %s" % v,
            module.where(pre_if),
            "the result for version %s must be %r + '/'.join(answers); found prefix %r" % (v, PREFIX_OF_VERSION[v], got),
        )
    return n_vals


# ---------------------------------------------------------------------------------------------
# semantic analysis of the builder: abstract interpretation with symbolic answers
#
# ask_interactively() is interpreted for every (version, all_metrics) with each read of the user's
# answer replaced by a fresh symbol that ranges over a finite set of representative answers.  The
# retry loop is summarised by one symbolic iteration (interp_stmt.s_While): paths that ask again
# must leave the state unchanged, the break paths define which answers are accepted and what is
# appended.  The returned string is then a concatenation of constants and per-answer tables, which
# is compared with the specification: prefix, metrics asked and their order, the accepted answers
# of each metric (case-insensitive legal values, empty = Not Defined where legal), the canonical
# spelling appended.  The decision does not depend on the idiom the code uses for the legality test.

VERSION_ARGS = [2, 3, 3.0, 3.1, 4, 4.0]
PREFIX_FOR = {2: "", 3: "CVSS:3.0/", 3.0: "CVSS:3.0/", 3.1: "CVSS:3.1/", 4: "CVSS:4.0/", 4.0: "CVSS:4.0/"}


def representative_answers(ctx, vnum, reduced=False):
    legal = ctx.legal(vnum)
    toks = set()
    for vals in legal.values():
        toks |= set(vals)
    out = []
    if reduced:
        # two answers to one question are decided jointly: a smaller set per answer
        for t in sorted(toks):
            out += [t, t.lower(), " " + t + " "]
        out += ["", " ", "?", "ND", "nd", "X", "x"]
        seen = []
        for a in out:
            if a not in seen:
                seen.append(a)
        return tuple(seen)
    for t in sorted(toks):
        for a in (t, t.lower(), t.upper(), t.swapcase(), t.capitalize(), " " + t, t + " ", "\t" + t.lower() + " "):
            out.append(a)
        out.append(t + t)
        out.append(t + ":")
        if len(t) > 1:
            out.append(t[:-1])
            out.append(t[0] + " " + t[1:])
    out += ["", " ", "\t", "?", "ZZ", "N/A", "AV:N", "(N)", "0", "1", "7", "99", "\u00b2", "none", "NONE", "not defined", "Not Defined", "NOT_DEFINED", "ND", "nd", "X", "x", "-", "/", ":"]
    seen = []
    for a in out:
        if a not in seen:
            seen.append(a)
    return tuple(seen)


def expected_answer(legal_vals, nd, a):
    """('accept', canonical) | ('reject', None) | ('either', canonical or None) for answer a."""
    def match(x):
        m = [v for v in legal_vals if v.upper() == x.upper()]
        return m[0] if m else None

    if a == "":
        return ("accept", nd) if nd in legal_vals else ("reject", None)
    if a != a.strip():
        s = a.strip()
        if s == "":
            return ("either", nd if nd in legal_vals else None)
        return ("either", match(s))
    m = match(a)
    return ("accept", m) if m is not None else ("reject", None)


def flatten_string(t):
    """Parts of a string term: Const pieces and Fin pieces; join/cat flattened."""
    from .terms import App, Const, Fin

    if isinstance(t, (Const, Fin)):
        return [t]
    if isinstance(t, App) and t.op == "cat":
        out = []
        for a in t.args:
            out.extend(flatten_string(a))
        return out
    if isinstance(t, App) and t.op == "join":
        sep = t.args[0]
        out = []
        for i, it in enumerate(t.args[1:]):
            if not (isinstance(it, App) and it.op == "item"):
                raise AnalysisError("C16.semantic", "join over a non-item", None)
            g, v = it.args
            if not (isinstance(g, Const) and g.v is True):
                raise AnalysisError("C16.semantic", "conditionally present field in the result", None)
            if i:
                out.extend(flatten_string(sep))
            out.extend(flatten_string(v))
        return out
    raise AnalysisError("C16.semantic", "result piece %r is not a constant or a table over an answer" % (t,), None)


def _lcp(strs):
    if not strs:
        return ""
    a, b = min(strs), max(strs)
    n = 0
    while n < len(a) and n < len(b) and a[n] == b[n]:
        n += 1
    return a[:n]


def canonical_pieces(pieces):
    """Canonical form of a concatenation of constants ("c", text) and per-answer tables
    ("f", slot, {answer: text}), each table over its own answer: constants are maximal, a table's
    texts share no common prefix and no common suffix.  Two concatenations denote the same function
    of the answers iff their canonical forms are equal."""
    out = []
    for pc in pieces:
        if pc[0] == "c":
            if pc[1] == "":
                continue
            if out and out[-1][0] == "c":
                out[-1] = ("c", out[-1][1] + pc[1])
            else:
                out.append(pc)
            continue
        _, slot, tab = pc
        vals = list(tab.values())
        pre = _lcp(vals)
        rest = dict((k, v[len(pre) :]) for k, v in tab.items())
        suf = _lcp([v[::-1] for v in rest.values()])[::-1]
        core = dict((k, v[: len(v) - len(suf)] if suf else v) for k, v in rest.items())
        if pre:
            if out and out[-1][0] == "c":
                out[-1] = ("c", out[-1][1] + pre)
            else:
                out.append(("c", pre))
        out.append(("f", slot, core))
        if suf:
            out.append(("c", suf))
    # merge constants once more (a suffix followed by a constant)
    merged = []
    for pc in out:
        if pc[0] == "c" and merged and merged[-1][0] == "c":
            merged[-1] = ("c", merged[-1][1] + pc[1])
        else:
            merged.append(pc)
    return merged


def string_pieces(st, t):
    """("c", text) / ("f", slot, table) pieces of a string term in state st."""
    from .terms import Const, Fin

    fo = st.folder()
    out = []
    for p in flatten_string(t):
        if isinstance(p, Fin):
            p = fo.restrict(p)
        if isinstance(p, Const):
            if not isinstance(p.v, str):
                raise AnalysisError("C16.semantic", "non-string piece %r in the result" % (p.v,), None)
            out.append(("c", p.v))
        else:
            if len(p.slots) > 2:
                raise AnalysisError("C16.semantic", "a result piece depends on %d answers at once" % len(p.slots), None)
            if len(p.slots) == 2:
                # first try and retry of one question: a table over the pair
                key, tab = tuple(p.slots), dict(p.table)
            else:
                key, tab = p.slots[0], dict((k[0], v) for k, v in p.table.items())
            if out and out[-1][0] == "f" and out[-1][1] == key:
                prev = out[-1][2]
                out[-1] = ("f", key, dict((k, prev[k] + tab[k]) for k in tab if k in prev))
            else:
                out.append(("f", key, tab))
    return out


def check_builder_semantics(ctx, led, rule="C16.semantic"):
    from .interp import Dead
    from .interp_stmt import Evaluator
    from .terms import Const, Fin, Space

    f = ctx.repo.function("interactive", "ask_interactively")
    module = f.module
    where = module.where(f.node)
    n_ans = 0
    for version in VERSION_ARGS + [5.0]:
        vnum = NUM_OF_VERSION.get(version, {3: 3, 4: 4}.get(version))
        for all_metrics in (False, True):
            label = "ask_interactively(version=%r, all_metrics=%s)" % (version, all_metrics)
            ck = "interactive.ask_interactively::%s" % label
            from fractions import Fraction

            from .consteval import Flt
            from .interp import Builtin

            def run_builder(domain):
                space = Space()
                ev = Evaluator(ctx, space)
                ev.regex_on_tables = True  # a regex applied to the answers is evaluated on the representative answers
                ev.retry_loops = True
                ev.keep_pieces = True
                ev.global_overrides = {("interactive", "string_input"): Builtin("input")}
                counter = [0]
                probes = [0]

                def hook(st, node, mod, probe=False):
                    if probe:
                        slot = "probe:%03d" % probes[0]
                        probes[0] += 1
                    else:
                        slot = "ans:%03d" % counter[0]
                        counter[0] += 1
                    space.add(slot, domain)
                    st.dom[slot] = domain
                    return Fin((slot,), dict(((a,), a) for a in domain))

                ev.input_hook = hook
                st = ev.new_state()
                varg = Const(version) if isinstance(version, int) else Const(Flt(Fraction(str(version)), str(version)))
                try:
                    val = ev.inline(st, f, None, [varg, Const(all_metrics), Const(True)], {}, f.node, module)
                except Dead:
                    val = None
                return ev, st, val, counter

            domain = representative_answers(ctx, vnum) if vnum else ("",)
            ev, st, val, counter = run_builder(domain)
            if vnum:
                n_questions = len(ctx.vspec(vnum)["order"] if all_metrics else ctx.vspec(vnum)["mandatory"])
                if counter[0] > n_questions:
                    # more reads than questions (a first try before the retry loop): the answers of
                    # one question are decided jointly, over a smaller set per answer
                    domain = representative_answers(ctx, vnum, reduced=True)
                    ev, st, val, counter = run_builder(domain)
            evs = list(ev.events)
            if version == 5.0:
                led.check(
                    val is None and any(e.kind == "raise" for e in evs),
                    rule + ".unknown",
                    ck,
                    where,
                    "an unsupported version must be refused, not answered from some version's tables",
                )
                continue
            if val is None:
                hz = [e for e in evs if e.kind in ("hazard", "raise")]
                led.violation(
                    rule + ".total",
                    ck,
                    hz[-1].where() if hz else where,
                    "the builder raises on every path for a supported version"
                    + (": %s at %s (%s)" % (hz[-1].data.get("exc"), short(hz[-1].node), hz[-1].data.get("what") or "raise") if hz else ""),
                )
                continue
            for e in evs:
                if e.kind in ("hazard", "may_raise", "raise", "none_arith"):
                    led.violation(
                        rule + ".total",
                        "interactive.ask_interactively::%s" % short(_stmt_of(e)),
                        e.where(),
                        "%s can raise %s for some answer sequence (%s)" % (label, e.data.get("exc"), e.data.get("what")),
                    )
                if e.kind == "retry_state_change":
                    led.violation(
                        rule + ".retry",
                        "interactive.ask_interactively::retry loop",
                        e.where(),
                        "%s: %s, so a rejected answer influences the result" % (label, e.data.get("what")),
                    )
                if e.kind == "retry_never_exits":
                    led.violation(rule + ".retry", "interactive.ask_interactively::retry loop", e.where(), "%s: no answer is ever accepted" % label)
            legal = ctx.legal(vnum)
            spec = ctx.vspec(vnum)
            nd = spec["nd"]
            asked = list(spec["order"]) if all_metrics else list(spec["mandatory"])
            try:
                pieces = string_pieces(st, val)
            except AnalysisError as e:
                led.violation(rule + ".result", ck, where, "the returned value is not the concatenation of a prefix and one field per answer: %s" % e.message)
                continue
            fpieces = [pc for pc in pieces if pc[0] == "f"]
            slots_in_order = [pc[1] for pc in fpieces]
            # which metric each field belongs to: read off the string for one accepted answer each
            sample = ""
            for pc in pieces:
                if pc[0] == "c":
                    sample += pc[1]
                elif pc[2]:
                    sample += pc[2][sorted(pc[2])[0]]
            body = sample[len(PREFIX_FOR[version]) :] if sample.startswith(PREFIX_FOR[version]) else None
            order_found = [fld.split(":")[0] for fld in body.split("/")] if body else []
            led.check(
                body is not None,
                rule + ".prefix",
                ck,
                where,
                "%s must return a string that starts with %r; it returns e.g. %r" % (label, PREFIX_FOR[version], sample[:40]),
            )
            if body is None:
                continue
            n_slots = sum(len(x) if isinstance(x, tuple) else 1 for x in slots_in_order)
            good = len(fpieces) == len(asked) and n_slots == counter[0] and sorted(order_found) == sorted(asked) and len(set(slots_in_order)) == len(slots_in_order)
            led.check(
                good,
                rule + ".asked",
                ck,
                where,
                "%d metric(s) must be asked once each (%s); the builder reads %d answer(s) and returns the fields %s"
                % (len(asked), ",".join(asked), counter[0], ",".join(order_found)[:120]),
            )
            if not good:
                continue
            asked = order_found
            ctx.memo.setdefault(("builder_order",), {})[(version, all_metrics)] = list(order_found)
            # expected concatenation, built from the specification
            expected = []
            bad = None
            for i, (k, (_, slot, tab)) in enumerate(zip(asked, fpieces)):
                expected.append(("c", (PREFIX_FOR[version] if i == 0 else "/") + k + ":"))
                etab = {}
                if isinstance(slot, tuple):
                    # first try a1, retry a2: a1 decides when it is accepted, otherwise a2 does (a
                    # rejected a2 is asked again: no row)
                    never = [a for a in domain if expected_answer(legal[k], nd, a)[0] == "reject"]
                    for a1 in domain:
                        k1, c1 = expected_answer(legal[k], nd, a1)
                        took1 = any((a1, r) in tab for r in never)
                        if k1 == "accept" and not took1 and bad is None:
                            bad = "the legal first answer %r for %s is not accepted" % (a1, k)
                        if k1 == "reject" and took1 and bad is None:
                            bad = "the first answer %r is accepted for %s, but it is not a legal value of %s" % (a1, k, k)
                        if k1 == "either" and took1 and c1 is None and bad is None:
                            bad = "the first answer %r is accepted for %s, but it is not a legal value of %s" % (a1, k, k)
                        for a2 in domain:
                            n_ans += 1
                            if took1:
                                etab[(a1, a2)] = c1
                                continue
                            k2, c2 = expected_answer(legal[k], nd, a2)
                            accepted = (a1, a2) in tab
                            if k2 == "accept":
                                etab[(a1, a2)] = c2
                                if not accepted and bad is None:
                                    bad = "after the rejected answer %r, the legal answer %r for %s is never accepted (the question is repeated for ever)" % (a1, a2, k)
                            elif k2 == "reject":
                                if accepted and bad is None:
                                    bad = "after the rejected answer %r, the answer %r is accepted for %s, but it is not a legal value of %s" % (a1, a2, k, k)
                            elif accepted:
                                if c2 is None:
                                    if bad is None:
                                        bad = "the answer %r is accepted for %s, but it is not a legal value of %s" % (a2, k, k)
                                else:
                                    etab[(a1, a2)] = c2
                    expected.append(("f", slot, etab))
                    continue
                for a in domain:
                    n_ans += 1
                    kind, canon = expected_answer(legal[k], nd, a)
                    accepted = a in tab
                    if kind == "accept":
                        etab[a] = canon
                        if not accepted and bad is None:
                            bad = "the legal answer %r for %s is never accepted (the question is repeated for ever)" % (a, k)
                    elif kind == "reject":
                        if accepted and bad is None:
                            bad = "the answer %r is accepted for %s, but it is not a legal value of %s" % (a, k, k)
                    elif accepted:
                        if canon is None:
                            if bad is None:
                                bad = "the answer %r is accepted for %s, but it is not a legal value of %s" % (a, k, k)
                        else:
                            etab[a] = canon
                expected.append(("f", slot, etab))
            if bad is None:
                got_c, exp_c = canonical_pieces(pieces), canonical_pieces(expected)
                if got_c != exp_c:
                    for x, y in zip(got_c, exp_c):
                        if x != y:
                            if x[0] == "f" and y[0] == "f":
                                diff = [(a, x[2].get(a), y[2].get(a)) for a in sorted(set(x[2]) | set(y[2])) if x[2].get(a) != y[2].get(a)][:2]
                                k = asked[slots_in_order.index(x[1])] if x[1] in slots_in_order else "?"
                                bad = "for %s the answer %r contributes %r where the specification's spelling is %r" % ((k,) + diff[0]) if diff else "fields differ"
                            else:
                                bad = "the text %r appears where %r is expected" % (x[1] if x[0] == "c" else "<answer>", y[1] if y[0] == "c" else "<answer>")
                            break
                    else:
                        bad = "the result has %d pieces where %d are expected" % (len(got_c), len(exp_c))
            if bad is None:
                led.ok(rule, ck, where, "%d metrics x %d representative answers: prefix, order, accepted answers and appended spellings as specified" % (len(asked), len(domain)))
            else:
                led.violation(rule, ck, where, "%s: %s" % (label, bad))
    return n_ans


def _stmt_of(e):
    st = e.node
    mod = e.module
    while st is not None and not isinstance(st, ast.stmt) and mod.parent(st) is not None:
        st = mod.parent(st)
    return st if st is not None else e.node


def check_c16(ctx, led):
    """C16: the semantic analysis (symbolic answers) decides; the structural idiom rules are kept as
    an informational cross-check, and decide only when the builder cannot be interpreted."""
    from .rules_parse import InfoLedger

    try:
        n = check_builder_semantics(ctx, led)
        semantic_ok = True
    except AnalysisError as e:
        if e.rule == "C16.anchor":
            raise
        led.info(
            "C16.semantic",
            "interactive.ask_interactively",
            "cvss/interactive.py",
            "the builder could not be interpreted symbolically (%s): the structural idiom rules decide instead" % e.message,
        )
        semantic_ok = False
        sem_error = e
        n = 0
    class _Structural(InfoLedger):
        # the call-graph rule is not idiom-dependent: it keeps deciding
        def violation(self_, rule, *a, **k):
            if rule == "C16.ask.recursion":
                return led.violation(rule, *a, **k)
            return InfoLedger.violation(self_, rule, *a, **k)

    if semantic_ok:
        try:
            check_c16_structural(ctx, _Structural(led))
        except AnalysisError as e:
            led.info("C16.structural", "interactive.ask_interactively", "cvss/interactive.py", "idiom rules not applicable: %s" % e.message)
        return n
    # the idiom rules know one way of writing the builder: neither their silence nor their
    # complaints decide a builder the semantic analysis could not follow
    try:
        check_c16_structural(ctx, _Structural(led))
    except AnalysisError:
        pass
    raise sem_error
