"""C16 — structural analysis of interactive.ask_interactively (E3 + E6 decision tables)."""

from __future__ import annotations

import ast

from . import guards as G
from .ctx import VERSIONS
from .rules_parse import call_of, chain_arms, parse_summary
from .srcmodel import AnalysisError, norm_src, short

VERSION_VALUES = [2, 3.0, 3.1, 4.0]
CONST_OF_VERSION = {2: "constants2", 3.0: "constants3", 3.1: "constants3", 4.0: "constants4"}
NUM_OF_VERSION = {2: 2, 3.0: 3, 3.1: 3, 4.0: 4}
PREFIX_OF_VERSION = {2: "", 3.0: "CVSS:3.0/", 3.1: "CVSS:3.1/", 4.0: "CVSS:4.0/"}
CASE_FOLDS = ("upper", "lower", "casefold")
IDEMPOTENT = ("strip", "lstrip", "rstrip", "upper", "lower", "casefold")


def eval_guard(expr, env):
    """Evaluate a guard over constants and the names in env (decision-table evaluation)."""
    if isinstance(expr, ast.Constant):
        return expr.value
    if isinstance(expr, ast.Name):
        if expr.id in env:
            return env[expr.id]
        raise KeyError(expr.id)
    if isinstance(expr, ast.UnaryOp) and isinstance(expr.op, ast.Not):
        return not eval_guard(expr.operand, env)
    if isinstance(expr, ast.BoolOp):
        vals = [eval_guard(v, env) for v in expr.values]
        return all(vals) if isinstance(expr.op, ast.And) else any(vals)
    if isinstance(expr, ast.Compare):
        left = eval_guard(expr.left, env)
        for op, c in zip(expr.ops, expr.comparators):
            right = eval_guard(c, env)
            r = {
                ast.Eq: lambda a, b: a == b,
                ast.NotEq: lambda a, b: a != b,
                ast.Lt: lambda a, b: a < b,
                ast.LtE: lambda a, b: a <= b,
                ast.Gt: lambda a, b: a > b,
                ast.GtE: lambda a, b: a >= b,
                ast.In: lambda a, b: a in b,
                ast.NotIn: lambda a, b: a not in b,
            }[type(op)](left, right)
            if not r:
                return False
            left = right
        return True
    if isinstance(expr, (ast.Tuple, ast.List)):
        return [eval_guard(e, env) for e in expr.elts]
    if isinstance(expr, ast.Call) and isinstance(expr.func, ast.Name) and expr.func.id == "len" and len(expr.args) == 1 and not expr.keywords:
        return len(eval_guard(expr.args[0], env))
    if (
        isinstance(expr, ast.Call)
        and isinstance(expr.func, ast.Attribute)
        and not expr.keywords
        and expr.func.attr in ("upper", "lower", "strip", "lstrip", "rstrip", "casefold", "startswith", "endswith", "isalpha", "isdigit", "isupper", "islower", "isalnum", "keys")
    ):
        recv = eval_guard(expr.func.value, env)
        args = [eval_guard(a, env) for a in expr.args]
        if isinstance(recv, str) or (expr.func.attr == "keys" and isinstance(recv, dict)):
            r = getattr(recv, expr.func.attr)(*args)
            return list(r) if expr.func.attr == "keys" else r
        raise KeyError(norm_src(expr))
    if isinstance(expr, ast.Subscript) and not isinstance(expr.slice, ast.Slice):
        base = eval_guard(expr.value, env)
        idx = eval_guard(expr.slice, env)
        try:
            return base[idx]
        except Exception:
            raise KeyError(norm_src(expr))
    raise KeyError(norm_src(expr))


def chain_result(ifnode, env):
    """Body taken by an if/elif/else chain for the environment env."""
    node = ifnode
    while True:
        if eval_guard(node.test, env):
            return node.body
        if len(node.orelse) == 1 and isinstance(node.orelse[0], ast.If):
            node = node.orelse[0]
            continue
        return node.orelse


def apply_norm(chain, s):
    for m in chain:
        s = getattr(s, m)()
    return s


def check_c16(ctx, led):
    f = ctx.repo.function("interactive", "ask_interactively")
    module = f.module
    where = module.where(f.node)
    params = f.params
    if len(params) < 2:
        raise AnalysisError("C16.anchor", "ask_interactively lost its parameters", f.node, module)
    vname = params[0]
    allname = params[1]
    body = f.node.body
    # ---- (0) "repeats the question until legal" for every finite answer sequence: re-asking must
    # be iteration; a call-graph cycle reachable from the builder grows the stack with every
    # illegal answer and dies with RecursionError after a finite number of them
    from .rules_access import get_effects

    E = get_effects(ctx)
    reach = E.reachable([f.qualname], loose_methods=False)
    cyc = []
    for q in sorted(reach):
        if q in E.reachable(sorted(E.callees(q, loose_methods=False)), loose_methods=False):
            cyc.append(q)
    for q in cyc:
        fq = E.by_qual[q]
        led.violation(
            "C16.ask.recursion",
            "%s::recursive re-ask" % q,
            fq.module.where(fq.node),
            "%s is reachable from ask_interactively and calls itself (directly or indirectly): every repeated question "
            "deepens the stack, so a finite run of illegal answers ends in RecursionError instead of another question" % q,
        )
    if not cyc:
        led.ok("C16.ask.recursion", "interactive.ask_interactively::call graph", where, "%d reachable functions, no cycle" % len(reach))
    # ---- (1) version -> constants module
    table_if = None
    for st in body:
        if isinstance(st, ast.If) and any(isinstance(x, ast.ImportFrom) for x in ast.walk(st)):
            table_if = st
    if table_if is None:
        raise AnalysisError("C16.tables", "no version-dependent import of the constants found", f.node, module)
    imported = {}
    for v in VERSION_VALUES:
        try:
            arm = chain_result(table_if, {vname: v})
        except KeyError as e:
            raise AnalysisError("C16.tables", "version switch mentions %s" % e, table_if, module)
        mods = [x.module for b in arm for x in ast.walk(b) if isinstance(x, ast.ImportFrom)]
        names = sorted(al.asname or al.name for b in arm for x in ast.walk(b) if isinstance(x, ast.ImportFrom) for al in x.names)
        imported[v] = (mods, names)
        led.check(
            mods == [CONST_OF_VERSION[v]],
            "C16.tables",
            "interactive.ask_interactively::version %s -> tables" % v,
            module.where(table_if),
            "version %s must use %s; the switch selects %s" % (v, CONST_OF_VERSION[v], mods or "an error"),
        )
    # an unknown version must not fall into some table
    try:
        arm = chain_result(table_if, {vname: 5.0})
        led.check(
            G.terminates(arm) or not any(isinstance(x, ast.ImportFrom) for b in arm for x in ast.walk(b)),
            "C16.tables.else",
            "interactive.ask_interactively::unknown version",
            module.where(table_if),
            "an unsupported version silently uses some version's tables",
        )
    except KeyError:
        pass
    # table names
    need = {"METRICS_ABBREVIATIONS", "METRICS_MANDATORY", "METRICS_VALUE_NAMES"}
    for v in VERSION_VALUES:
        if not need <= set(imported[v][1]):
            raise AnalysisError("C16.tables", "the arm for version %s does not import %s" % (v, sorted(need)), table_if, module)
    # ---- (2) metric selection
    floop = None
    for st in body:
        if isinstance(st, ast.For):
            floop = st
    if floop is None:
        raise AnalysisError("C16.ask", "no loop over the metrics", f.node, module)
    metric = floop.target.id if isinstance(floop.target, ast.Name) else None
    iter_name = floop.iter.id if isinstance(floop.iter, ast.Name) else None
    sel_ok = False
    for st in body:
        if isinstance(st, ast.If) and isinstance(st.test, ast.Name) and st.test.id == allname:
            tb = [x for x in st.body if isinstance(x, ast.Assign)]
            eb = [x for x in st.orelse if isinstance(x, ast.Assign)]
            if len(tb) == 1 and len(eb) == 1:
                t_all = norm_src(tb[0].value)
                t_mand = norm_src(eb[0].value)
                sel_ok = (
                    isinstance(tb[0].targets[0], ast.Name)
                    and tb[0].targets[0].id == iter_name
                    and eb[0].targets[0].id == iter_name
                    and t_all in ("METRICS_ABBREVIATIONS.keys()", "METRICS_ABBREVIATIONS", "list(METRICS_ABBREVIATIONS)", "list(METRICS_ABBREVIATIONS.keys())")
                    and t_mand == "METRICS_MANDATORY"
                )
    led.check(
        sel_ok,
        "C16.ask.selection",
        "interactive.ask_interactively::metric selection",
        where,
        "metrics asked must be all keys of METRICS_ABBREVIATIONS when all_metrics is true and METRICS_MANDATORY otherwise",
    )
    # ---- (3) answer loop
    whiles = [n for n in ast.walk(floop) if isinstance(n, ast.While)]
    if len(whiles) != 1:
        raise AnalysisError("C16.ask", "expected one answer loop per metric, found %d" % len(whiles), floop, module)
    wl = whiles[0]
    led.check(
        isinstance(wl.test, ast.Constant) and wl.test.value is True and not wl.orelse,
        "C16.ask.loop",
        "interactive.ask_interactively::answer loop header",
        module.where(wl),
        "the question must be repeated until an answer is accepted (`while True`)",
    )
    breaks = [n for n in ast.walk(wl) if isinstance(n, ast.Break)]
    rets = [n for n in ast.walk(wl) if isinstance(n, (ast.Return,))]
    appends = [
        n
        for n in ast.walk(f.node)
        if isinstance(n, ast.Call) and isinstance(n.func, ast.Attribute) and n.func.attr in ("append", "extend", "insert") and isinstance(n.func.value, ast.Name)
    ]
    # the list that is joined and returned
    join_lists = set()
    for n in ast.walk(f.node):
        c = call_of(n, "join")
        if c and c[1] and isinstance(c[1][0], ast.Name) and isinstance(c[0], ast.Constant) and c[0].value == "/":
            join_lists.add(c[1][0].id)
    appends = [a for a in appends if a.func.value.id in join_lists and a.func.attr == "append"]
    if len(appends) != 1 or len(breaks) != 1 or rets:
        led.violation(
            "C16.ask.exit",
            "interactive.ask_interactively::answer loop exits",
            module.where(wl),
            "the answer loop must have exactly one exit, a break right after the only append to the result "
            "(found %d append(s), %d break(s), %d return(s))" % (len(appends), len(breaks), len(rets)),
        )
        return 0
    ap, br = appends[0], breaks[0]
    ap_stmt = ap
    while not isinstance(ap_stmt, ast.stmt):
        ap_stmt = module.parent(ap_stmt)
    parent = module.parent(ap_stmt)
    blk = None
    for field in ("body", "orelse"):
        if ap_stmt in getattr(parent, field, []):
            blk = getattr(parent, field)
    adj = blk is not None and br in blk and blk.index(br) == blk.index(ap_stmt) + 1 and any(a is wl for a in module.ancestors(ap_stmt))
    led.check(
        adj,
        "C16.ask.exit",
        "interactive.ask_interactively::%s" % short(ap_stmt),
        module.where(ap_stmt),
        "the append of the accepted answer must be immediately followed by the loop's break (one accepted answer per metric)",
    )
    # appended expression: metric + ":" + V
    arg = ap.args[0] if ap.args else None
    parts = []

    def flat(e):
        if isinstance(e, ast.BinOp) and isinstance(e.op, ast.Add):
            flat(e.left)
            flat(e.right)
        else:
            parts.append(e)

    if arg is not None:
        flat(arg)
    shape_ok = (
        len(parts) == 3
        and isinstance(parts[0], ast.Name)
        and parts[0].id == metric
        and isinstance(parts[1], ast.Constant)
        and parts[1].value == ":"
    )
    led.check(
        shape_ok,
        "C16.accept.shape",
        "interactive.ask_interactively::%s" % short(ap_stmt),
        module.where(ap_stmt),
        "the appended field must be <metric> + ':' + <accepted value>",
    )
    if not shape_ok:
        return 0
    V = parts[2]
    facts = G.dominating_facts(module, ap_stmt, stop=wl)
    # values table
    vals_name = None
    for n in ast.walk(floop):
        if isinstance(n, ast.Assign) and isinstance(n.targets[0], ast.Name):
            src = norm_src(n.value)
            if src in ("METRICS_VALUE_NAMES[%s]" % metric, "METRICS_VALUE_NAMES[%s].keys()" % metric, "list(METRICS_VALUE_NAMES[%s])" % metric):
                vals_name = n.targets[0].id
    if vals_name is None:
        raise AnalysisError("C16.accept", "the legal values are not taken from METRICS_VALUE_NAMES[metric]", floop, module)
    mode = None
    answer = None
    norm2 = []
    if isinstance(V, ast.Name):
        for fa in facts:
            e = fa.expr
            if (
                fa.pol
                and isinstance(e, ast.Compare)
                and isinstance(e.ops[0], ast.In)
                and isinstance(e.left, ast.Name)
                and e.left.id == V.id
                and isinstance(e.comparators[0], ast.Name)
                and e.comparators[0].id == vals_name
            ):
                mode, answer = "A", V.id
    elif isinstance(V, ast.Subscript) and isinstance(V.value, ast.Name) and isinstance(V.slice, ast.Constant) and V.slice.value == 0:
        mname = V.value.id
        guarded = any(fa.pol and isinstance(fa.expr, ast.Name) and fa.expr.id == mname for fa in facts)
        for n in ast.walk(wl):
            if isinstance(n, ast.Assign) and isinstance(n.targets[0], ast.Name) and n.targets[0].id == mname and isinstance(n.value, ast.ListComp):
                lc = n.value
                g = lc.generators[0]
                if (
                    len(lc.generators) == 1
                    and isinstance(g.iter, ast.Name)
                    and g.iter.id == vals_name
                    and isinstance(g.target, ast.Name)
                    and isinstance(lc.elt, ast.Name)
                    and lc.elt.id == g.target.id
                    and len(g.ifs) == 1
                    and isinstance(g.ifs[0], ast.Compare)
                    and isinstance(g.ifs[0].ops[0], ast.Eq)
                ):
                    l, r = g.ifs[0].left, g.ifs[0].comparators[0]
                    for a, b in ((l, r), (r, l)):
                        chain = []
                        x = a
                        while isinstance(x, ast.Call) and isinstance(x.func, ast.Attribute) and not x.args:
                            chain.insert(0, x.func.attr)
                            x = x.func.value
                        if isinstance(x, ast.Name) and x.id == g.target.id and isinstance(b, ast.Name) and guarded:
                            mode, answer, norm2 = "B", b.id, chain
    if mode is None:
        led.violation(
            "C16.accept.test",
            "interactive.ask_interactively::%s" % short(ap_stmt),
            module.where(ap_stmt),
            "the appended value is not guarded by a membership test of the answer in the metric's legal values "
            "(an invalid answer could be accepted, or the idiom is not recognised)",
        )
        return 0
    led.ok("C16.accept.test", "interactive.ask_interactively::%s" % short(ap_stmt), module.where(ap_stmt), "idiom %s" % mode)
    # ---- (4) the answer's normaliser chain and the empty-answer default
    norm_in = None
    for n in ast.walk(wl):
        if isinstance(n, ast.Assign) and isinstance(n.targets[0], ast.Name) and n.targets[0].id == answer:
            chain = []
            x = n.value
            while isinstance(x, ast.Call) and isinstance(x.func, ast.Attribute) and not x.args:
                chain.insert(0, x.func.attr)
                x = x.func.value
            if isinstance(x, ast.Call) and isinstance(x.func, ast.Name) and x.func.id in ("string_input", "input", "raw_input") and norm_in is None:
                norm_in = (chain, n)
    if norm_in is None:
        raise AnalysisError("C16.reach", "cannot find where the answer is read", wl, module)
    chain, read_stmt = norm_in
    unknown = [m for m in chain + norm2 if m not in IDEMPOTENT]
    if unknown:
        raise AnalysisError("C16.reach", "normaliser %s not modelled" % unknown, read_stmt, module)
    led.check(
        any(m in CASE_FOLDS for m in chain),
        "C16.reach.case",
        "interactive.ask_interactively::%s" % short(read_stmt),
        module.where(read_stmt),
        "answers must be matched case-insensitively: the answer is not case-folded",
    )
    # empty answer -> ND token of the version, before the accept test
    default_if = None
    for n in ast.walk(wl):
        if isinstance(n, ast.If) and norm_src(n.test) in ("not %s" % answer, "%s == ''" % answer, "len(%s) == 0" % answer):
            default_if = n
    nd_ok = default_if is not None
    if default_if is not None:
        for v in VERSION_VALUES:
            tok = None
            try:
                inner = default_if.body
                if len(inner) == 1 and isinstance(inner[0], ast.If):
                    arm = chain_result(inner[0], {vname: v})
                else:
                    arm = inner
                for b in arm:
                    if isinstance(b, ast.Assign) and isinstance(b.targets[0], ast.Name) and b.targets[0].id == answer and isinstance(b.value, ast.Constant):
                        tok = b.value.value
            except KeyError:
                tok = None
            want = ctx.vspec(NUM_OF_VERSION[v])["nd"]
            led.check(
                tok == want,
                "C16.accept.empty",
                "interactive.ask_interactively::empty answer for version %s" % v,
                module.where(default_if),
                "an empty answer must stand for %r in version %s (found %r)" % (want, v, tok),
            )
        order_ok = default_if.lineno < ap_stmt.lineno and default_if.lineno > read_stmt.lineno
        led.check(
            order_ok,
            "C16.accept.empty.order",
            "interactive.ask_interactively::empty answer handling",
            module.where(default_if),
            "the empty answer must be replaced by the Not Defined token before the legality test",
        )
    else:
        led.violation("C16.accept.empty", "interactive.ask_interactively::empty answer", module.where(wl), "an empty answer is not mapped to Not Defined")
    # ---- (5) every legal value can be selected; builder and parser agree on the values
    n_vals = 0
    for vnum in (2, 3, 4):
        const = VERSIONS[vnum]["const"]
        names = ctx.ce.table(const, "METRICS_VALUE_NAMES", "C16.tables")
        abbr = ctx.ce.table(const, "METRICS_ABBREVIATIONS", "C16.tables")
        mand = ctx.ce.table(const, "METRICS_MANDATORY", "C16.tables")
        acc = parse_summary(ctx, vnum)["accepted"]
        nd = ctx.vspec(vnum)["nd"]
        led.check(
            set(abbr.keys()) == set(acc.keys()) and set(mand) == set(ctx.vspec(vnum)["mandatory"]),
            "C16.tables.metrics",
            "%s asked metrics" % const,
            "cvss/%s.py" % const,
            "the metrics asked differ from the metrics the parser accepts / the specification's mandatory metrics",
        )
        for k in abbr:
            row = names.get(k)
            if not isinstance(row, dict):
                led.violation("C16.tables.values", "%s.METRICS_VALUE_NAMES[%s]" % (const, k), "cvss/%s.py" % const, "asked metric %s has no value row" % k)
                continue
            led.check(
                set(row.keys()) == set(acc.get(k) or []),
                "C16.tables.values",
                "%s.METRICS_VALUE_NAMES[%s]" % (const, k),
                "cvss/%s.py" % const,
                "values the builder accepts for %s (%s) differ from the values the parser accepts (%s)"
                % (k, sorted(row.keys()), sorted(acc.get(k) or [])),
            )
            keys = list(row.keys())
            for val in keys:
                n_vals += 1
                if mode == "A":
                    reach = apply_norm(chain, val) == val
                else:
                    reach = apply_norm(chain, val) == apply_norm(norm2, val) and [x for x in keys if apply_norm(norm2, x) == apply_norm(norm2, val)][0] == val
                if not reach:
                    led.violation(
                        "C16.reach",
                        "interactive.ask_interactively::%s" % short(read_stmt),
                        module.where(read_stmt),
                        "legal value %s:%s of CVSS v%d can never be selected: the answer is normalised with %s and then "
                        "compared with the table spelling %r" % (k, val, vnum, "/".join(chain), val),
                    )
                    break
            else:
                continue
            break
    led.ok("C16.reach", "interactive.ask_interactively::reachability", module.where(read_stmt), "%d legal values are fixed points of the normaliser" % n_vals)
    # ---- (5b) no other exit of the answer loop may take a legal answer away from the accept test
    diverts = [n for n in ast.walk(wl) if isinstance(n, (ast.Continue, ast.Break, ast.Return, ast.Raise)) and n is not br]
    n_div = 0
    for dv in diverts:
        dfacts = G.dominating_facts(module, dv, stop=wl)
        hit = None
        for vnum, vv in ((2, 2), (3, 3.0), (3, 3.1), (4, 4.0)):
            const = VERSIONS[vnum]["const"]
            names = ctx.ce.table(const, "METRICS_VALUE_NAMES", "C16.tables")
            nd = ctx.vspec(vnum)["nd"]
            for k, row in names.items():
                if not isinstance(row, dict):
                    continue
                for val in row:
                    for typed in (apply_norm(chain, val), "" if val == nd else None):
                        if typed is None:
                            continue
                        env = {answer: typed, vname: vv, allname: True, vals_name: list(row.keys())}
                        if metric:
                            env[metric] = k
                        try:
                            taken = all(bool(eval_guard(fa.expr, env)) == fa.pol for fa in dfacts)
                        except KeyError as e:
                            raise AnalysisError(
                                "C16.reach", "cannot evaluate the guard of `%s` (%s) for a legal answer" % (short(dv), e), dv, module
                            )
                        n_div += 1
                        if taken and hit is None:
                            hit = (vnum, k, val, typed)
        led.check(
            hit is None,
            "C16.reach.divert",
            "interactive.ask_interactively::%s" % short(dv),
            module.where(dv),
            "a legal answer leaves the accept path: for CVSS v%s metric %s the answer %r (value %s) takes `%s` before the "
            "legality test, so that value can never be selected" % ((hit[0], hit[1], hit[3], hit[2], short(dv)) if hit else ("", "", "", "", "")),
        )
    led.ok("C16.reach.divert", "interactive.ask_interactively::other loop exits", module.where(wl), "%d other exits, %d guard evaluations" % (len(diverts), n_div))
    # ---- (6) prefix and result
    ret = [n for n in ast.walk(f.node) if isinstance(n, ast.Return) and n.value is not None]
    pre_if = None
    for st in body:
        if isinstance(st, ast.If) and any(isinstance(x, ast.Constant) and isinstance(x.value, str) and x.value.startswith("CVSS:") for x in ast.walk(st)):
            if not any(isinstance(x, ast.ImportFrom) for x in ast.walk(st)):
                pre_if = st
    if pre_if is None or len(ret) != 1 or not isinstance(ret[0].value, ast.Name):
        raise AnalysisError("C16.prefix", "result construction not recognised", f.node, module)
    rname = ret[0].value.id
    for v in VERSION_VALUES:
        try:
            arm = chain_result(pre_if, {vname: v})
        except KeyError as e:
            raise AnalysisError("C16.prefix", "prefix switch mentions %s" % e, pre_if, module)
        got = None
        for b in arm:
            if isinstance(b, ast.Assign) and isinstance(b.targets[0], ast.Name) and b.targets[0].id == rname:
                e = b.value
                ps = []

                def flat2(x):
                    if isinstance(x, ast.BinOp) and isinstance(x.op, ast.Add):
                        flat2(x.left)
                        flat2(x.right)
                    else:
                        ps.append(x)

                flat2(e)
                j = ps[-1]
                c = call_of(j, "join")
                if c and isinstance(c[0], ast.Constant) and c[0].value == "/" and isinstance(c[1][0], ast.Name) and c[1][0].id in join_lists:
                    pre = "".join(x.value for x in ps[:-1] if isinstance(x, ast.Constant))
                    if all(isinstance(x, ast.Constant) for x in ps[:-1]):
                        got = pre
        led.check(
            got == PREFIX_OF_VERSION[v],
            "C16.prefix",
            "interactive.ask_interactively::prefix for version %s" % v,
            module.where(pre_if),
            "the result for version %s must be %r + '/'.join(answers); found prefix %r" % (v, PREFIX_OF_VERSION[v], got),
        )
    return n_vals
