"""Canonicalisation of value graphs under a (possibly pinned) state, and a small builder used to
write the specification's equations in the same term language."""

from __future__ import annotations

import ast
from fractions import Fraction

from . import terms as T
from .consteval import Dec, Flt, Num
from .interp import Dead, TupleVal, mk_and, mk_not, mk_or, truth_const
from .srcmodel import AnalysisError
from .terms import App, BoolOp, Cmp, Const, Fin, Opaque, P, Term


class Canon(object):
    """Rebuilds a term under the assumptions of `st`: every Fin restricted to the state's
    domains, decided ITEs pruned, polynomials re-normalised."""

    def __init__(self, ev, st, subst=None):
        self.ev = ev
        self.st = st
        self.memo = {}
        self.subst = subst or {}

    def __call__(self, t):
        return self.term(t)

    def term(self, t):
        if isinstance(t, TupleVal):
            return TupleVal([self.term(x) for x in t.items])
        if not isinstance(t, Term):
            return t
        k = t.sortkey()
        if k in self.memo:
            return self.memo[k]
        if k in self.subst:
            r = self.subst[k]
            self.memo[k] = r
            return r
        r = self._term(t)
        self.memo[k] = r
        return r

    def _term(self, t):
        ev, st = self.ev, self.st
        if isinstance(t, Const):
            return t
        if isinstance(t, Fin):
            return st.folder().restrict(t)
        if isinstance(t, P):
            out = P({}, t.kind)
            for m, c in t.terms.items():
                term = P.const(c, t.kind)
                for a, e in m:
                    ca = self.term(a)
                    pa = ev.to_poly(None, ca, None) if not isinstance(ca, P) else ca
                    if pa.kind is None:
                        pa = P(pa.terms, t.kind)
                    term = T.p_mul(term, T.p_pow(pa, e))
                out = T.p_add(out, term)
            out.kind = t.kind
            return out
        if isinstance(t, Cmp):
            p = self.term(t.poly)
            return T.mk_cmp(t.op, p, P.const(0))
        if isinstance(t, BoolOp):
            args = [self.term(a) for a in t.args]
            if t.op == "not":
                r = mk_not(args[0])
            elif t.op == "and":
                r = mk_and(args)
            else:
                r = mk_or(args)
            if isinstance(r, BoolOp):
                r = ev.try_fold_bool(st, r)
            return r
        if isinstance(t, App):
            if t.op == "ite":
                c = self.term(t.args[0])
                d = None
                try:
                    d = ev.decide(st, c)
                except Dead:
                    d = None
                if d is True:
                    return self.term(t.args[1])
                if d is False:
                    return self.term(t.args[2])
                a, b = self.term(t.args[1]), self.term(t.args[2])
                if isinstance(c, Cmp) and c.op in ("<", "<=", ">", ">=") and not T.may_nan(c.poly):
                    # `a if a > b else b` is max(a, b), `a if a < b else b` is min(a, b) (and the
                    # mirrored spellings): the comparison's polynomial is the arms' difference
                    try:
                        pa = a if isinstance(a, P) else ev.to_poly(None, a, None)
                        pb = b if isinstance(b, P) else ev.to_poly(None, b, None)
                        diff = T.p_add(pa, pb, -1)
                        neg = T.p_add(pb, pa, -1)
                        op = None
                        if c.poly == diff:
                            op = "max" if c.op in (">", ">=") else "min"
                        elif c.poly == neg:
                            op = "min" if c.op in (">", ">=") else "max"
                        if op is not None and pa.kind == pb.kind:
                            return self.term(App(op, (pa, pb), ()))
                    except (AnalysisError, Dead, AttributeError, TypeError):
                        pass
                return ev.mk_ite(st, c, a, b)
            args = [self.term(a) if isinstance(a, Term) else a for a in t.args]
            if t.op == "div" and isinstance(args[1], P) and args[1].is_const() and args[1].const_value() != 0:
                c = args[1].const_value()
                num = args[0] if isinstance(args[0], P) else ev.to_poly(None, args[0], None)
                return P(dict((m, x / c) for m, x in num.terms.items()), T.kind_join(num.kind, args[1].kind))
            if t.op in ("eq", "streq") and len(args) == 2 and all(isinstance(a, Const) for a in args):
                return Const(args[0].v == args[1].v)
            if t.op == "truth" and len(args) == 1 and isinstance(args[0], Const):
                return Const(bool(truth_const(args[0].v)))
            if t.op == "ind":
                d = None
                try:
                    d = ev.decide(st, args[0])
                except Dead:
                    d = None
                if d is not None:
                    return P.const(1 if d else 0, "int")
                c = args[0]
                if isinstance(c, BoolOp) and c.op == "not" and len(c.args) == 1:
                    # [not x] = 1 - [x] (x may be a comparison that nan makes false: kept as it is)
                    return T.p_add(P.const(1, "int"), P.atom(App("ind", (c.args[0],)), "int"), -1)
                nc = mk_not(c)
                if not (isinstance(nc, BoolOp) and nc.op == "not") and nc.sortkey() < c.sortkey():
                    return T.p_add(P.const(1, "int"), P.atom(App("ind", (nc,)), "int"), -1)
                return App("ind", (c,))
            if t.op in ("min", "max") and "ordered" not in t.attrs:
                ps = [a for a in args]
                if all(isinstance(p, P) and p.is_const() for p in ps):
                    f = min if t.op == "min" else max
                    return P.const(f(p.const_value() for p in ps), ps[0].kind)
                ps = sorted(set(ps), key=lambda p: p.sortkey())
                if len(ps) == 1:
                    return ps[0]
                return App(t.op, ps, t.attrs)
            return App(t.op, args, t.attrs)
        return t


class SpecBuilder(object):
    """Operator-style construction of specification terms with the interpreter's constructors, so
    that both sides normalise identically."""

    def __init__(self, ev, st):
        self.ev = ev
        self.st = st

    def num(self, s, kind="dec"):
        q = Fraction(str(s))
        return SE(self, P.const(q, kind))

    def leaf(self, slots, fn, kind="dec"):
        """Finite function leaf: fn(*slot values) -> decimal string / Fraction / None."""
        fo = self.st.folder()
        slots = tuple(sorted(slots))
        sl, rows = fo.rows(slots)
        table = {}
        for r in rows:
            v = fn(*[r[sl.index(s)] for s in slots])
            if v is None:
                table[r] = None
            else:
                q = Fraction(str(v))
                table[r] = Dec(q) if kind == "dec" else Flt(q)
        f = fo.simplify(Fin(sl, table))
        return SE(self, self.ev.to_poly(self.st, f, None))

    def table_leaf(self, slots, fn, kind="flt"):
        """Leaf whose rows may be NaN (fn returns None for NaN)."""
        from .consteval import NAN

        fo = self.st.folder()
        slots = tuple(sorted(slots))
        sl, rows = fo.rows(slots)
        table = {}
        for r in rows:
            v = fn(*[r[sl.index(s)] for s in slots])
            table[r] = NAN if v is None else (Dec(Fraction(str(v))) if kind == "dec" else Flt(Fraction(str(v))))
        f = fo.simplify(Fin(sl, table))
        return SE(self, self.ev.to_poly(self.st, f, None))

    def wrap(self, t):
        return SE(self, t)

    def min(self, *xs):
        return SE(self, self.ev.call_builtin(self.st, "min", [x.t for x in xs], {}, None, None))

    def max(self, *xs):
        return SE(self, self.ev.call_builtin(self.st, "max", [x.t for x in xs], {}, None, None))

    def quant(self, x, exp, mode):
        p = self.ev.to_poly(self.st, x.t, None)
        return SE(self, P.atom(App("quant", (p,), (str(Fraction(exp)), mode)), "dec"))

    def ite(self, c, a, b):
        return SE(self, self.ev.mk_ite(self.st, c, a.t, b.t))

    def cmp(self, op, a, b):
        pa = self.ev.to_poly(self.st, a.t, None)
        pb = self.ev.to_poly(self.st, b.t, None)
        return T.mk_cmp(op, pa, pb)

    def app(self, op, *xs, **kw):
        return SE(self, P.atom(App(op, [self.ev.to_poly(self.st, x.t, None) for x in xs], kw.get("attrs", ())), kw.get("kind")))


class SE(object):
    def __init__(self, sb, t):
        self.sb = sb
        self.t = t

    def _bin(self, op, o, swap=False):
        if not isinstance(o, SE):
            o = self.sb.num(o, "dec" if not isinstance(o, float) else "flt")
        a, b = (o.t, self.t) if swap else (self.t, o.t)
        return SE(self.sb, self.sb.ev.binop(self.sb.st, op, a, b, None, None))

    def __add__(self, o):
        return self._bin(ast.Add(), o)

    def __radd__(self, o):
        return self._bin(ast.Add(), o, True)

    def __sub__(self, o):
        return self._bin(ast.Sub(), o)

    def __rsub__(self, o):
        return self._bin(ast.Sub(), o, True)

    def __mul__(self, o):
        return self._bin(ast.Mult(), o)

    def __rmul__(self, o):
        return self._bin(ast.Mult(), o, True)

    def __truediv__(self, o):
        return self._bin(ast.Div(), o)

    def __pow__(self, n):
        return SE(self.sb, self.sb.ev.binop(self.sb.st, ast.Pow(), self.t, P.const(n, "int"), None, None))


def diff_poly(a, b, limit=6):
    """Human readable difference between two canonical polynomials."""
    out = []
    if not (isinstance(a, P) and isinstance(b, P)):
        return ["found %r" % (a,), "expected %r" % (b,)]
    ka = dict((P({m: 1}).sortkey(), (m, c)) for m, c in a.terms.items())
    kb = dict((P({m: 1}).sortkey(), (m, c)) for m, c in b.terms.items())
    for k in sorted(set(ka) | set(kb)):
        ca = ka.get(k, (None, 0))[1]
        cb = kb.get(k, (None, 0))[1]
        if ca != cb:
            m = (ka.get(k) or kb.get(k))[0]
            out.append("monomial %s: found coefficient %s, specification %s" % (mono_str(m), ca, cb))
            if len(out) >= limit:
                break
    return out


def mono_str(m):
    if not m:
        return "1"
    return "*".join(atom_str(a) + ("^%d" % e if e != 1 else "") for a, e in m)


def atom_str(a):
    if isinstance(a, Fin):
        return "w[%s]" % ",".join(s.replace("m:", "") for s in a.slots)
    if isinstance(a, App):
        return "%s(...)%s" % (a.op, ("{" + ",".join(str(x) for x in a.attrs) + "}") if a.attrs else "")
    return repr(a)


def explain_diff(found, expected, depth=0, path="value"):
    """Walk two canonical terms and report the first structural differences."""
    out = []
    if isinstance(found, Term) and isinstance(expected, Term) and found == expected:
        return out
    if depth > 8:
        return ["%s differs" % path]
    if isinstance(found, P) and isinstance(expected, P):
        # single-atom polys: descend
        fa, ea = list(found.atoms()), list(expected.atoms())
        if len(found.terms) == 1 and len(expected.terms) == 1 and len(fa) == 1 and len(ea) == 1:
            (mf, cf), = found.terms.items()
            (me, ce), = expected.terms.items()
            if cf == ce and isinstance(fa[0], App) and isinstance(ea[0], App) and fa[0].op == ea[0].op:
                return explain_diff(fa[0], ea[0], depth + 1, path)
        fset = dict((a.sortkey(), a) for a in fa)
        eset = dict((a.sortkey(), a) for a in ea)
        only_f = [fset[k] for k in fset if k not in eset]
        only_e = [eset[k] for k in eset if k not in fset]
        if len(only_f) == 1 and len(only_e) == 1 and type(only_f[0]) is type(only_e[0]):
            if isinstance(only_f[0], App) and only_f[0].op == only_e[0].op:
                return explain_diff(only_f[0], only_e[0], depth + 1, path + "/" + only_f[0].op)
            if isinstance(only_f[0], Fin):
                return ["%s: leaf %s differs: found {%s} specification {%s}" % (
                    path, atom_str(only_f[0]), only_f[0].describe(8), only_e[0].describe(8))]
        if not only_f and not only_e:
            return ["%s: %s" % (path, d) for d in diff_poly(found, expected)]
        return [
            "%s: atoms only in the code: %s; only in the specification: %s"
            % (path, [atom_str(a) for a in only_f][:4], [atom_str(a) for a in only_e][:4])
        ] + ["%s: %s" % (path, d) for d in diff_poly(found, expected, 3)]
    if isinstance(found, App) and isinstance(expected, App):
        if found.op != expected.op or found.attrs != expected.attrs or len(found.args) != len(expected.args):
            return [
                "%s: found %s%s, specification %s%s"
                % (path, found.op, list(found.attrs), expected.op, list(expected.attrs))
            ]
        for i, (x, y) in enumerate(zip(found.args, expected.args)):
            if not (isinstance(x, Term) and isinstance(y, Term) and x == y):
                out.extend(explain_diff(x, y, depth + 1, "%s/%s[%d]" % (path, found.op, i)))
                if out:
                    return out
        return out
    if isinstance(found, Cmp) and isinstance(expected, Cmp):
        if found.op != expected.op:
            return ["%s: comparison operator found %s, specification %s" % (path, found.op, expected.op)]
        return explain_diff(found.poly, expected.poly, depth + 1, path + "/cmp")
    if isinstance(found, Fin) and isinstance(expected, Fin):
        return ["%s: table differs: found {%s} specification {%s}" % (path, found.describe(8), expected.describe(8))]
    return ["%s: found %r, specification %r" % (path, found, expected)][:1]
