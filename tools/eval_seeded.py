#!/venv/bin/python
"""Confirms a candidate breaking change and runs every check against it.

usage: tools/eval_seeded.py DIR [N ...]      DIR holds patch_N.diff, demo_N.py, meta_N.json

For each patch: scratch copy of /repo (outside /repo and /verif, removed afterwards), apply the
patch, (1) the pinned test suite must still show the 34 baseline tests passing, (2) the demo must
exit 1 on the patched copy and 0 on the unpatched tree, (3) all 20 checks are run against the
patched copy (VERIF_REPO) and the verdicts are printed.  Nothing is written to /repo.
"""

import json
import os
import re
import shutil
import subprocess
import sys
import tempfile
from concurrent.futures import ThreadPoolExecutor

VERIF = os.path.dirname(os.path.dirname(os.path.abspath(__file__)))
REPO = "/repo"
PROPS = ["C%02d" % i for i in range(1, 21)]


def sh(cmd, cwd=None, env=None, timeout=600):
    p = subprocess.run(cmd, cwd=cwd, env=env, stdout=subprocess.PIPE, stderr=subprocess.STDOUT, text=True, timeout=timeout)
    return p.returncode, p.stdout


def scratch_copy():
    tmp = tempfile.mkdtemp(prefix="vseed_")
    for name in ("cvss", "tests", "setup.py", "tox.ini", "README.rst", "pyproject.toml", "usage.py", "util"):
        src = os.path.join(REPO, name)
        if os.path.isdir(src):
            shutil.copytree(src, os.path.join(tmp, name))
        elif os.path.exists(src):
            shutil.copy(src, os.path.join(tmp, name))
    return tmp


def run_check(args):
    prop, root = args
    env = dict(os.environ)
    env["VERIF_REPO"] = root
    env["VERIF_EVIDENCE_DIR"] = os.path.join(root, "_evidence")
    env.setdefault("VERIF_JOBS", "4")
    rc, out = sh([os.path.join(VERIF, "vcheck"), prop, "--tier", "quick"], cwd=VERIF, env=env)
    rules = sorted(set(re.findall(r"violated (\S+)", out)))
    err = [l for l in out.splitlines() if l.startswith("ANALYSIS-ERROR")]
    return prop, rc, rules, err[:1]


def evaluate(d, n):
    patch = os.path.join(d, "patch_%s.diff" % n)
    demo = os.path.join(d, "demo_%s.py" % n)
    res = {"patch": patch, "n": n}
    tmp = scratch_copy()
    try:
        rc, out = sh(["patch", "-p1", "-i", patch], cwd=tmp)
        res["applies"] = rc == 0
        if rc != 0:
            res["error"] = out[-300:]
            return res
        rc, out = sh(["/venv/bin/python", "-m", "pytest", "-q", "-p", "no:cacheprovider", "tests"], cwd=tmp)
        m = re.search(r"(\d+) passed", out)
        res["passed"] = int(m.group(1)) if m else 0
        env = dict(os.environ)
        env["PYTHONPATH"] = tmp
        rc1, out1 = sh(["/venv/bin/python", demo], cwd=tmp, env=env, timeout=300)
        env["PYTHONPATH"] = REPO
        rc0, out0 = sh(["/venv/bin/python", demo], cwd=REPO, env=env, timeout=300)
        res["demo_patched"] = rc1
        res["demo_clean"] = rc0
        res["demo_out"] = out1[-300:]
        # EVAL_SKIP=C14,... leaves out expensive checks unless the change targets them
        target = os.path.basename(d.rstrip("/"))[:3].upper()
        skip = set(x for x in os.environ.get("EVAL_SKIP", "").split(",") if x and x != target)
        res["checks_not_run"] = sorted(skip)
        with ThreadPoolExecutor(max_workers=int(os.environ.get("EVAL_WORKERS", "10"))) as ex:
            checks = list(ex.map(run_check, [(p, tmp) for p in PROPS if p not in skip]))
        res["fired"] = dict((p, rules) for p, rc, rules, err in checks if rc == 1)
        res["errors"] = dict((p, err) for p, rc, rules, err in checks if rc == 2)
        return res
    finally:
        shutil.rmtree(tmp, ignore_errors=True)


def main():
    d = sys.argv[1]
    ns = sys.argv[2:] or sorted(set(re.findall(r"patch_(\w+)\.diff", " ".join(os.listdir(d)))))
    out = []
    for n in ns:
        r = evaluate(d, n)
        out.append(r)
        meta = {}
        try:
            meta = json.load(open(os.path.join(d, "meta_%s.json" % n)))
        except Exception:
            pass
        print("== %s #%s: %s" % (os.path.basename(d), n, meta.get("summary", "")[:150]))
        print(
            "   applies=%s passed=%s demo(patched)=%s demo(clean)=%s"
            % (r.get("applies"), r.get("passed"), r.get("demo_patched"), r.get("demo_clean"))
        )
        print("   fired: %s" % json.dumps(r.get("fired", {})))
        if r.get("errors"):
            print("   analysis errors: %s" % json.dumps(r.get("errors")))
    with open(os.path.join(d, "eval.json"), "w") as f:
        json.dump(out, f, indent=1)


if __name__ == "__main__":
    main()
