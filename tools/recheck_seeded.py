#!/venv/bin/python
"""Re-runs the checks against every stored seeded change (/verif/seeded/*/patch.diff) and rewrites
the `checks_that_fire` / `detected` / `target_fires` fields of its meta.json.

usage: tools/recheck_seeded.py [--all-checks] [--jobs N] [NAME ...]

By default only the target property's check and the checks recorded as firing are re-run;
--all-checks runs all 20.  Each change is applied to a scratch copy of /repo outside /repo and
/verif, which is removed afterwards.  Nothing is written to /repo.
"""

import json
import os
import re
import shutil
import sys
from concurrent.futures import ThreadPoolExecutor

HERE = os.path.dirname(os.path.abspath(__file__))
sys.path.insert(0, HERE)
import eval_seeded as E  # noqa

SEEDED = os.path.join(E.VERIF, "seeded")


def one(name, all_checks):
    d = os.path.join(SEEDED, name)
    meta = json.load(open(os.path.join(d, "meta.json")))
    target = (meta.get("property") or name.split("-")[0]).upper()[:3]
    tmp = E.scratch_copy()
    try:
        rc, out = E.sh(["patch", "-p1", "-i", os.path.join(d, "patch.diff")], cwd=tmp)
        if rc != 0:
            return name, None, "patch does not apply: %s" % out[-200:]
        props = E.PROPS if all_checks else sorted(set([target]) | set(meta.get("checks_that_fire", {})))
        res = [E.run_check((p, tmp)) for p in props]
        fired = dict((p, rules) for p, rc, rules, err in res if rc == 1)
        errors = sorted(p for p, rc, rules, err in res if rc == 2)
        if not all_checks:
            # keep earlier verdicts of checks that were not re-run
            pass
        meta["checks_that_fire"] = fired if all_checks else dict(meta.get("checks_that_fire", {}), **fired)
        if not all_checks:
            for p in props:
                if p not in fired:
                    meta["checks_that_fire"].pop(p, None)
        meta["checks_with_analysis_error"] = errors if all_checks else sorted(set(errors) | (set(meta.get("checks_with_analysis_error", [])) - set(props)))
        meta["detected"] = bool(meta["checks_that_fire"])
        meta["target_fires"] = target in meta["checks_that_fire"]
        with open(os.path.join(d, "meta.json"), "w") as f:
            json.dump(meta, f, indent=1)
        return name, meta, None
    finally:
        shutil.rmtree(tmp, ignore_errors=True)


def main():
    args = sys.argv[1:]
    all_checks = "--all-checks" in args
    jobs = 8
    if "--jobs" in args:
        jobs = int(args[args.index("--jobs") + 1])
        del args[args.index("--jobs") : args.index("--jobs") + 2]
    names = [a for a in args if not a.startswith("--")] or sorted(os.listdir(SEEDED))
    names = [n for n in names if os.path.exists(os.path.join(SEEDED, n, "patch.diff"))]
    bad = 0
    with ThreadPoolExecutor(max_workers=jobs) as ex:
        for name, meta, err in ex.map(lambda n: one(n, all_checks), names):
            if err:
                print("%-12s ERROR %s" % (name, err))
                bad += 1
                continue
            fired = meta["checks_that_fire"]
            flag = "ok " if meta["target_fires"] else ("SIB" if fired else "MISS")
            if flag != "ok ":
                bad += 1
            print("%-12s %s target=%s fired=%s errors=%s" % (name, flag, meta["property"], sorted(fired), meta.get("checks_with_analysis_error")))
    print("%d changes, %d not caught by their own property's check" % (len(names), bad))
    return 0


if __name__ == "__main__":
    sys.exit(main())
