#!/venv/bin/python
"""Regenerates /verif/MANIFEST.json from the table below (keeps it valid at all times)."""

import json
import os
import sys

HERE = os.path.dirname(os.path.dirname(os.path.abspath(__file__)))

TB = (
    "CPython ast parser; /verif/sa engines; transcription of the standards in /verif/spec. Every check that uses an object "
    "model also decides: caches in shared tables keyed by something that determines the stored value (<id>.state.memo), and "
    "that the constructed state does not depend on the order of the parsed map or of a set (<id>.model.order / .hashorder: "
    "second object model with both reversed)"
)

# id -> (category, technique, design_ref, level text, level note)
CLAIMED = {
    "C01": (
        "other",
        "abstract interpretation to gated value graphs; polynomial normal form vs specification equations",
        "DESIGN.md section 4 C01",
        "Static value-graph analysis of CVSS3.__init__: for every (minor, Scope, Modified Scope) case the expression DAG "
        "flowing into each score equals the FIRST equations in exact-rational polynomial normal form over weight leaves; "
        "weights, PR tables, fill rule, selectors, rounding mode/quantum/placement, cap, guards all decided. Structural "
        "necessary condition, not the numeric claim.",
        "Not decided: exactness of Decimal ** at precision 28 (numeric). Trusted: " + TB,
    ),
    "C03": (
        "other",
        "abstract interpretation to gated value graphs; polynomial normal form vs guide equations",
        "DESIGN.md section 4 C03",
        "Static value-graph analysis of CVSS2.__init__: the DAG flowing into each score, including the None-ness guard, "
        "equals the CVSS v2 guide equations in exact-rational polynomial normal form; weights compared as rationals.",
        "Trusted: " + TB,
    ),
    "C02": (
        "other",
        "literal-table evaluation and cross-derivation; decision tables for m() and the six classifiers; abstract "
        "interpretation of compute_base_score (search loop summarised) vs the specification algorithm",
        "DESIGN.md section 4 C02",
        "Static analysis of CVSS4 scoring: 270 lookup rows, highest-severity vectors, depths and level tables compared "
        "by value and cross-derived; m() and EQ1..EQ6 equal the specification's predicates on every valuation of the "
        "atoms they mention; the gated expression DAG of compute_base_score equals the specification's algorithm for "
        "each joint (EQ3,EQ6) case; search loop is first-fit over the product of the per-class lists on all 14 distances.",
        "Not decided: binary floating point vs exact evaluation (EPSILON sufficiency). Lookup reference is the table "
        "frozen from the pinned tree (no second copy offline). Trusted: " + TB,
    ),
    "C04": (
        "other",
        "dominating-guard analysis of the parsers arbitrated by a semantic analysis of the parse and mandatory phases on "
        "representative strings; table agreement with the grammar; abstract interpretation for implicit-exception sites; raise "
        "classification",
        "DESIGN.md section 4 C04",
        "Every store into the metric map is dominated by the four grammar facts on the raw split components; consulted "
        "tables equal the specification grammar; prefix chain accepts exactly the version prefixes and drops as many "
        "segments as the prefix has slashes; check_mandatory (abstractly interpreted) rejects exactly the vectors lacking a "
        "mandatory metric; every explicit raise has the taxonomy's class; every implicit-exception site reachable from a "
        "constructor is discharged.",
        "Raises guarded by conditions outside the recognised set are listed as undecided (possible over-rejection). "
        "Input is assumed to be str. Trusted: " + TB,
    ),
    "C18": (
        "proof",
        "effect analysis over the resolved call graph + abstract interpretation of every accessor",
        "DESIGN.md section 4 C18",
        "The transitive write set of every public accessor is empty (so any sequence of calls equals independent single "
        "calls), no accessor can raise on any abstract post-construction state for any option combination, and returned "
        "containers are fresh objects holding immutable values.",
        "Assumes the post-construction abstract state (C04 summary) and immutability of str/float/tuple. Trusted: " + TB,
    ),
    "C19": (
        "other",
        "package-wide effect census; who-may-call rules for ambient state and I/O; set-order typestate",
        "DESIGN.md section 4 C19",
        "No function writes a module-level name or imported table, import-time code only binds constants, no ambient "
        "state (decimal context, sys, os, warnings, random, time) is touched, print/input only in the CLI modules, every "
        "quantize() has an explicit rounding mode, no set iteration order reaches a result.",
        "Sufficient condition for history/thread independence; ambient rounding influence on v3's inexact ** is not "
        "decided. Trusted: " + TB,
    ),
    "C05": (
        "proof",
        "information-flow analysis: field-loop effect check, iteration-source census, absent-vs-ND comparison of abstract results",
        "DESIGN.md section 4 C05",
        "Only a keyed store dominated by the duplicate check survives an iteration of the field loop; no sink or construction "
        "step iterates the parsed map or depends on the raw string; for every optional metric the abstract result of every "
        "sink is identical for 'absent' and 'Not Defined' with all other metrics arbitrary (chaining gives every subset).",
        "Assumes CPython dict semantics and the C04 acceptance facts. Trusted: " + TB,
    ),
    "C06": (
        "proof",
        "dependence analysis on canonical score value graphs under pinned states",
        "DESIGN.md section 4 C06",
        "Canonical score terms are equal under each listed substitution (ND modified vs base value, ND vs equivalent value); "
        "symbol sets exclude supplemental metrics (v4), the overridden base metric (v3 environmental, v4 effective values) and "
        "temporal/environmental metrics for base/temporal scores.",
        "v4 goes through the m()/macroVector summaries checked by C02. Trusted: " + TB,
    ),
    "C07": (
        "proof",
        "abstract interpretation of clean_vector/__eq__/__hash__ (== also on pairs of constructed objects that differ in one "
        "metric); composition with C04 acceptance facts",
        "DESIGN.md section 4 C07",
        "clean_vector() is prefix + '/'.join of one guarded field per accepted metric in a constant order, guard = given and not "
        "Not Defined, text = stored pair; mandatory fields always emitted, prefix maps back to the same minor version; == is "
        "isinstance(own class) and equality of the default clean vectors (or semantically: for every metric, two objects that agree "
        "elsewhere are equal exactly when they give it the same defined value), hash is hash of the same key.",
        "Re-parse equality is a composition argument over C04 facts, not an execution. Trusted: " + TB,
    ),
    "C08": (
        "proof",
        "regular-language inclusion: emitted field automaton vs DFA of the official vectorString pattern",
        "DESIGN.md section 4 C08",
        "The emitted language of clean_vector()/rh_vector() (extracted by abstract interpretation) and of the interactive builder "
        "(field order read off its value graph) is included in the language of the pinned FIRST vectorString pattern of its version, decided by "
        "propagating reachable DFA states through the ordered optional/mandatory field sequence.",
        "Builder structure relies on C16; self-acceptance on C07.reparse. Trusted: " + TB + "; re._parser as regex front end",
    ),
    "C09": (
        "other",
        "typestate (quantised), interval/multilinear-vertex bounds, threshold decision tables on the 0.1 grid",
        "DESIGN.md section 4 C09",
        "Every score value is a selection of values quantised to one decimal, bounded in [0,10] by abstract numeric analysis; "
        "each severity chain equals the official scale on all 101 grid points (and None for v2); severities(), the v4 severity "
        "attribute and JSON fields depend on the score of their own slot only.",
        "Sign of zero not tracked; v4 float arithmetic bounded as exact rationals. Trusted: " + TB,
    ),
    "C10": (
        "other",
        "abstract interpretation of as_json to an abstract JSON object + abstract schema validation + DFA inclusion for vectorString",
        "DESIGN.md section 4 C10",
        "For all four (sort, minimal) combinations every possible value of every emitted key that the pinned FIRST schema "
        "constrains is admitted, every required key is always emitted, the v4 score/severity pairing is checked on the grid, "
        "and the accepted input language is compared with the vectorString pattern. Two v4 disagreements are genuine and "
        "recorded as known findings.",
        "multipleOf treated mathematically; unconstrained keys are not checked (schemas lack additionalProperties:false). Trusted: " + TB,
    ),
    "C11": (
        "proof",
        "abstract interpretation of as_json: identity, per-slot dependence, effective-value tokens, sort/minimal relations",
        "DESIGN.md section 4 C11",
        "vectorString is the constructor argument; metric fields name the effective value (independent name table); score and "
        "severity fields depend on their own slot; sort=True gives the same items in ascending order; minimal=True never drops a "
        "base field and keeps a group as a whole whenever one of its metrics is defined.",
        "v4 value names compared leniently (swaps/non-injective names only). Trusted: " + TB,
    ),
    "C12": (
        "other",
        "abstract interpretation of rh_vector; semantic analysis of from_rh_vector: abstract interpretation (exceptions as control "
        "flow) over a symbolic input ranging over representative Red Hat strings, constructor replaced by the grammar",
        "DESIGN.md section 4 C12",
        "rh_vector() = str(scores()[0]) + '/' + clean_vector() (value graph). from_rh_vector: for 143 representative strings per "
        "version (score texts x vector parts, strings without '/') the outcome read off the value graph - object returned or class "
        "raised - is the one the property states; a result kept in class- or module-level state and consulted again must be keyed "
        "by something that determines the required outcome (C12.sem.history).",
        "from_rh_vector is decided on representatives, not for all strings; the constructor stub rests on C04. Round trip by "
        "composition with C07.reparse, C09.quantised and float repr round-trip. Trusted: " + TB,
    ),
    "C15": (
        "proof",
        "abstract interpretation of the sub-vector methods; composition with C05/C06 for score preservation",
        "DESIGN.md section 4 C15",
        "temporal_vector()/environmental_vector() list exactly their group's metrics in specification order with the given value, "
        "the Not Defined token when omitted or (v3 modified metrics) the base metric's value.",
        "Score preservation is the composition of C05.nd and C06.a. Trusted: " + TB,
    ),
    "C13": (
        "other",
        "regex-as-data reasoning (re._parser AST) against the parsers' tables; semantic analysis of parse_cvss_from_text: abstract "
        "interpretation over symbolic candidate lists with the constructors replaced by the grammar",
        "DESIGN.md section 4 C13",
        "The pattern the function really searches has no capturing group and the shape (optional prefix)(class){n,m}; class, n, m, "
        "prefix group and the no-straddle condition are checked against the accepted tables, so a delimited valid vector is matched "
        "exactly (proof on the regex as data). For K in {0,1,3} candidates over 21 representative strings the returned collection is "
        "exactly the valid candidates (or valid parts), each once, and nothing leaves the function; sort keys that can be None are found "
        "on the object model.",
        "The function part is decided on representative candidate sequences. Assumes leftmost-greedy re semantics; the constructor "
        "stubs rest on C04 (discharged inside C13) and == on C07 (discharged). A regex of another shape: exit 2. Trusted: " + TB,
    ),
    "C14": (
        "other",
        "table monotonicity along the specification's severity orders; sign-of-dependence certificates on value graphs; exact "
        "tabulation of value-graph sub-terms over the images of their weight leaves; v4: exact step table of the algorithm on the "
        "code's own tables over per-class signatures (digits, level sums), premises discharged on the value graph",
        "DESIGN.md section 4 C14",
        "Monotone weights, both PR tables, strictly ordered v4 levels, monotone lookup along all digit increments; for v2 and v3 "
        "every (score, metric step, case) is decided - by derivative-sign certificates where they exist, otherwise by exact-rational "
        "tabulation of the rounded value graph over the finite leaf images (whole tables, no sampling), with witness vectors. "
        "v4: the value graph of the score is the v4.0 algorithm on the code's own lookup and depth tables, the digits are the "
        "specification's classifiers, the search is a first fit, the highest-severity vectors of a class are interchangeable; the "
        "score is then a function of five per-class signatures and every single-metric severity step is compared on all 60 750 "
        "signature tuples (about 350 000 comparisons, exact rationals), within and across macrovector boundaries.",
        "Not decided: binary floating point vs exact evaluation of the v4 algorithm (C02's numeric clause). Trusted: " + TB,
    ),
    "C16": (
        "other",
        "semantic analysis of ask_interactively: abstract interpretation with every answer a symbol over representative answers, "
        "retry loops summarised by one symbolic iteration; table agreement; call-graph cycle rule",
        "DESIGN.md section 4 C16",
        "For version in {2,3,3.0,3.1,4,4.0,5.0} x all_metrics the returned string, as a concatenation of constants and per-answer "
        "tables in canonical form, equals the specification: prefix, one field per asked metric, accepted answers (case-insensitive, "
        "empty = Not Defined where legal), appended spelling; a rejected answer leaves no trace; nothing can raise; an unsupported "
        "version is refused.",
        "Decided on about 150 representative answers per question (about 65 x 65 when a question reads a first try and a retry). "
        "A builder the interpreter cannot follow: exit 2. Trusted: " + TB,
    ),
    "C17": (
        "other",
        "semantic analysis of cvss_calculator.main: abstract interpretation over symbolic command lines with argparse replaced by its "
        "specification for the listed options, constructors / accessors / builder by tokens, print / json.dumps / exit by recorders",
        "DESIGN.md section 4 C17",
        "For 768 command lines x input endings: nothing leaves main(), no non-zero exit, the class (and the version asked "
        "interactively) is one the flags select, -a reaches the builder, every score slot is printed verbatim with its rating, "
        "clean_vector() and rh_vector() with default arguments, JSON of as_json(sort=True, minimal=True) exactly with -j, the "
        "library's exception for an invalid vector; argparse options that could reject or re-read a listed command line are findings. "
        "The builder itself: the C16 analysis.",
        "argparse's own text and argv it rejects are outside the model; relies on C18 for accessor totality. Trusted: " + TB,
    ),
    "C20": (
        "other",
        "AST feature census, API availability tables, divergence lints (division, types, json separators, regex folding, lazy "
        "iterators, identity of values, comprehension leak by reaching definitions), plain-dict-order typestate, compile-only witnesses",
        "DESIGN.md section 4 C20",
        "The source stays in the common subset of 2.7 and 3.6-3.13 (syntax, names, __future__ imports, object bases), has no "
        "int/int division or round(), no plain-dict order reaching results/output/control, no construct from the divergence classes "
        "listed, and parses under every installed declared interpreter.",
        "Equality of results across runtimes in general is not decided (would need execution). Trusted: " + TB + "; the installed interpreters as parsers",
    ),
}

PENDING_REASON = "check under construction in this session; not claimed until its static rule set is built and validated"

ALL = ["C%02d" % i for i in range(1, 21)]


def main():
    checks = []
    for pid in ALL:
        if pid not in CLAIMED:
            continue
        cat, tech, ref, text, note = CLAIMED[pid]
        checks.append(
            {
                "property_id": pid,
                "quick_cmd": "./vcheck %s --tier quick" % pid,
                "thorough_cmd": "./vcheck %s --tier thorough" % pid,
                "evidence_file": "/verif/evidence/%s.json" % pid,
                "replay_cmd_template": "./vcheck %s --replay {path}" % pid,
                "engine": "sa",
                "level_claimed": {"category": cat, "text": text, "design_ref": ref},
                "level_note": note,
                "technique": tech,
            }
        )
    na_path = os.path.join(HERE, "tools", "not_applicable.json")
    na_reasons = {}
    if os.path.exists(na_path):
        with open(na_path) as f:
            na_reasons = json.load(f)
    not_applicable = [
        {"property_id": pid, "reason": na_reasons.get(pid, PENDING_REASON)} for pid in ALL if pid not in CLAIMED
    ]
    man = {
        "version": 1,
        "setup_cmd": "/venv/bin/python tools/setup_check.py",
        "hooks": {
            "guard": "CVSS_VERIF",
            "enable": "none needed: the checks are static and read /repo's working tree; the guard name is reserved and unused",
            "baseline_off_cmd": "cd /repo && /venv/bin/python -m pytest -ra -q -p no:cacheprovider --timeout=900 --continue-on-collection-errors",
            "source_commits": [],
            "add_only": True,
        },
        "engines": [
            {
                "name": "sa",
                "path": "/verif/sa",
                "serves_properties": sorted(CLAIMED),
                "kind_free_text": "repository-specific static analysis over the Python AST of /repo/cvss: constant-table "
                "evaluation, dominating-guard analysis, effect/call-graph analysis, abstract interpretation to gated value "
                "graphs with decision-table folding, regex automata; no execution of the analysed code",
            }
        ],
        "checks": checks,
        "notes": "Every check parses /repo's current working tree on each run (VERIF_REPO overrides the root for the "
        "self-test). Exit 0 clean / 1 VIOLATION / 2 ANALYSIS-ERROR. Known findings: /verif/known_findings.json.",
        "not_applicable": not_applicable,
    }
    with open(os.path.join(HERE, "MANIFEST.json"), "w") as f:
        json.dump(man, f, indent=1)
        f.write("\n")
    print("MANIFEST.json: %d checks, %d not claimed" % (len(checks), len(not_applicable)))


if __name__ == "__main__":
    main()
