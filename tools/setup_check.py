#!/venv/bin/python
"""setup_cmd: nothing to build (pure stdlib). Verifies the interpreter, the spec files and that the
engine imports; prints what the checks will use."""
import json
import os
import sys

HERE = os.path.dirname(os.path.dirname(os.path.abspath(__file__)))
sys.path.insert(0, HERE)
sys.dont_write_bytecode = True


def main():
    import ast  # noqa

    assert sys.version_info >= (3, 9), "need ast.unparse"
    for f in ("v2.json", "v3.json", "v4.json", "v4_lookup.json"):
        with open(os.path.join(HERE, "spec", f)) as fh:
            json.load(fh)
    for f in os.listdir(os.path.join(HERE, "spec", "schemas")):
        with open(os.path.join(HERE, "spec", "schemas", f)) as fh:
            json.load(fh)
    import sa.interp_stmt  # noqa
    import sa.rules_parse  # noqa

    os.makedirs(os.path.join(HERE, "evidence"), exist_ok=True)
    print("setup ok: python %s, engine importable, spec files readable" % sys.version.split()[0])


if __name__ == "__main__":
    main()
