#!/venv/bin/python
"""Re-confirms candidate changes with tools/eval_seeded.py logic and stores the confirmed ones as
/verif/seeded/<PROP>-<N>/ (patch.diff, demo.py, meta.json).

usage: tools/keep_seeded.py /tmp/wtout/C07 [N ...]
"""

import json
import os
import re
import shutil
import sys

HERE = os.path.dirname(os.path.abspath(__file__))
sys.path.insert(0, HERE)
import eval_seeded as E  # noqa

VERIF = os.path.dirname(HERE)


def main():
    d = sys.argv[1]
    prop = os.path.basename(d.rstrip("/"))
    ns = sys.argv[2:] or sorted(set(re.findall(r"patch_(\w+)\.diff", " ".join(os.listdir(d)))))
    for n in ns:
        r = E.evaluate(d, n)
        ok = r.get("applies") and r.get("passed") == 34 and r.get("demo_patched") == 1 and r.get("demo_clean") == 0
        meta = {}
        try:
            meta = json.load(open(os.path.join(d, "meta_%s.json" % n)))
        except Exception:
            pass
        tag = os.environ.get("SEED_TAG", "")
        name = "%s-%s%s" % (prop, tag, n)
        if not ok:
            print("NOT KEPT %s: applies=%s passed=%s demo=%s/%s" % (name, r.get("applies"), r.get("passed"), r.get("demo_patched"), r.get("demo_clean")))
            continue
        out = os.path.join(VERIF, "seeded", name)
        os.makedirs(out, exist_ok=True)
        shutil.copy(os.path.join(d, "patch_%s.diff" % n), os.path.join(out, "patch.diff"))
        shutil.copy(os.path.join(d, "demo_%s.py" % n), os.path.join(out, "demo.py"))
        m = {
            "property": meta.get("property", prop),
            "summary": meta.get("summary"),
            "needs": meta.get("needs"),
            "author": "independent sub-agent given only the property text and a scratch worktree of /repo",
            "author_commands": meta.get("author_commands") or meta.get("commands"),
            "confirmed": {
                "how": "tools/eval_seeded.py: scratch copy of /repo outside /repo and /verif, patch -p1, pinned pytest command, "
                "demo with PYTHONPATH=<patched copy> and with PYTHONPATH=/repo, then all 20 quick checks with VERIF_REPO=<patched copy>",
                "baseline_tests_passed": r.get("passed"),
                "demo_exit_patched": r.get("demo_patched"),
                "demo_exit_unpatched": r.get("demo_clean"),
            },
            "checks_not_run": r.get("checks_not_run", []),
            "checks_that_fire": r.get("fired", {}),
            "checks_with_analysis_error": sorted(r.get("errors", {})),
            "detected": bool(r.get("fired")),
            "target_fires": (meta.get("property", prop) or prop).upper()[:3] in r.get("fired", {}),
        }
        with open(os.path.join(out, "meta.json"), "w") as f:
            json.dump(m, f, indent=1)
        print("kept %s detected=%s by %s" % (name, m["detected"], sorted(m["checks_that_fire"])))


if __name__ == "__main__":
    main()
