#!/venv/bin/python
"""Applies one patch to a scratch copy of /repo and runs the named checks against it (debug aid).

usage: tools/try_patch.py PATCH PROP [PROP ...] [--keep]
Prints the violated / ANALYSIS-ERROR lines of each check.  The scratch copy is removed unless --keep.
"""
import os
import shutil
import sys

HERE = os.path.dirname(os.path.abspath(__file__))
sys.path.insert(0, HERE)
import eval_seeded as E  # noqa


def main():
    args = [a for a in sys.argv[1:] if not a.startswith("--")]
    patch, props = args[0], args[1:]
    tmp = E.scratch_copy()
    try:
        rc, out = E.sh(["patch", "-p1", "-i", os.path.abspath(patch)], cwd=tmp)
        if rc:
            print("patch failed", out)
            return 2
        for p in props:
            env = dict(os.environ)
            env["VERIF_REPO"] = tmp
            env["VERIF_EVIDENCE_DIR"] = os.path.join(tmp, "_evidence")
            env.setdefault("VERIF_JOBS", "8")
            rc, out = E.sh([os.path.join(E.VERIF, "vcheck"), p, "--tier", "quick"], cwd=E.VERIF, env=env, timeout=1800)
            print("== %s exit=%d" % (p, rc))
            for l in out.splitlines():
                if l.strip().startswith(("violated", "ANALYSIS-ERROR", "VIOLATION", "undecided")) or "--all" in sys.argv:
                    print("   " + l.strip()[:400])
        if "--keep" in sys.argv:
            print("kept", tmp)
    finally:
        if "--keep" not in sys.argv:
            shutil.rmtree(tmp, ignore_errors=True)


if __name__ == "__main__":
    sys.exit(main())
