#!/venv/bin/python
"""Runs every check against behaviour-preserving refactorings (candidates for neutral twins).

usage: tools/eval_neutral.py DIR [N ...]      DIR holds patch_N.diff, equiv_N.py, meta_N.json

For each patch: scratch copy of /repo (outside /repo and /verif, removed afterwards), apply the patch,
the pinned test suite must still show the 34 baseline tests passing, then all 20 checks run against
the patched copy; every one must exit 0.  With --equiv the differential script is re-run as well
(record on /repo, compare on the patched copy).  Nothing is written to /repo.
"""

import json
import os
import re
import shutil
import sys
from concurrent.futures import ThreadPoolExecutor

HERE = os.path.dirname(os.path.abspath(__file__))
sys.path.insert(0, HERE)
import eval_seeded as E  # noqa


def run_check_full(args):
    prop, root = args
    env = dict(os.environ)
    env["VERIF_REPO"] = root
    env["VERIF_EVIDENCE_DIR"] = os.path.join(root, "_evidence")
    env.setdefault("VERIF_JOBS", "4")
    rc, out = E.sh([os.path.join(E.VERIF, "vcheck"), prop, "--tier", "quick"], cwd=E.VERIF, env=env, timeout=1800)
    lines = [l.strip() for l in out.splitlines() if l.strip().startswith("violated ") or l.startswith("ANALYSIS-ERROR")]
    return prop, rc, lines[:3]


def evaluate(d, n, equiv=False):
    patch = os.path.join(d, "patch_%s.diff" % n)
    res = {"n": n}
    tmp = E.scratch_copy()
    try:
        rc, out = E.sh(["patch", "-p1", "-i", patch], cwd=tmp)
        res["applies"] = rc == 0
        if rc != 0:
            res["error"] = out[-300:]
            return res
        rc, out = E.sh(["/venv/bin/python", "-m", "pytest", "-q", "-p", "no:cacheprovider", "tests"], cwd=tmp)
        m = re.search(r"(\d+) passed", out)
        res["passed"] = int(m.group(1)) if m else 0
        if equiv:
            eq = os.path.join(d, "equiv_%s.py" % n)
            rec = os.path.join(tmp, "_equiv.json")
            env = dict(os.environ)
            env["PYTHONPATH"] = E.REPO
            r1, o1 = E.sh(["/venv/bin/python", eq, "record", rec], cwd=E.REPO, env=env, timeout=900)
            env["PYTHONPATH"] = tmp
            r2, o2 = E.sh(["/venv/bin/python", eq, "compare", rec], cwd=tmp, env=env, timeout=900)
            res["equiv"] = (r1, r2, o2[-200:] if r2 else "")
        with ThreadPoolExecutor(max_workers=6) as ex:
            checks = list(ex.map(run_check_full, [(p, tmp) for p in E.PROPS]))
        res["bad"] = dict((p, (rc, lines)) for p, rc, lines in checks if rc != 0)
        return res
    finally:
        shutil.rmtree(tmp, ignore_errors=True)


def main():
    args = [a for a in sys.argv[1:] if not a.startswith("--")]
    equiv = "--equiv" in sys.argv
    d = args[0]
    ns = args[1:] or sorted(set(re.findall(r"patch_(\w+)\.diff", " ".join(os.listdir(d)))))
    out = []
    for n in ns:
        r = evaluate(d, n, equiv)
        out.append(r)
        meta = {}
        try:
            meta = json.load(open(os.path.join(d, "meta_%s.json" % n)))
        except Exception:
            pass
        print("== %s #%s: %s" % (os.path.basename(d.rstrip("/")), n, (meta.get("summary") or "")[:160]))
        print("   applies=%s passed=%s%s" % (r.get("applies"), r.get("passed"), (" equiv=%s" % (r.get("equiv"),)) if equiv else ""))
        if r.get("bad"):
            for p, (rc, lines) in sorted(r["bad"].items()):
                print("   %s exit=%d %s" % (p, rc, (lines[0][:260] if lines else "")))
        else:
            print("   all 20 checks silent")
    with open(os.path.join(d, "eval_neutral.json"), "w") as f:
        json.dump(out, f, indent=1)


if __name__ == "__main__":
    main()
